"""Shared machinery for the CSX checks: query sessions, spec sponge, translator validation,
IR emission, replay and evidence writing."""
import fcntl
import json
import os
import subprocess
import sys
import time

import z3

import symx
from symx import P

VERIF = os.path.dirname(os.path.dirname(os.path.abspath(__file__)))
WORK = os.path.join(VERIF, "work")
EMIT_BIN = os.path.join(WORK, "target-emit", "release", "csx-emit")
GUARD = "quantus_network_qp_zk_circuits_verif"


def env_seed():
    try:
        return int(os.environ.get("VERIF_SEED", "1"))
    except ValueError:
        return 1


# ----------------------------------------------------------------------------- emitter
def build_emitter():
    """(Re)build the emitter against /repo's CURRENT working tree (cargo decides what is stale)."""
    os.makedirs(WORK, exist_ok=True)
    lock = open(os.path.join(WORK, ".emit.lock"), "w")
    fcntl.flock(lock, fcntl.LOCK_EX)
    try:
        src = os.path.join(VERIF, "csx-emit")
        lockfile = os.path.join(src, "Cargo.lock")
        if not os.path.exists(lockfile):
            subprocess.run(["cp", "/repo/Cargo.lock", lockfile], check=True)
        env = dict(os.environ)
        env["RUSTFLAGS"] = f"--cfg {GUARD}"
        env["CARGO_NET_OFFLINE"] = "true"
        env["CARGO_TARGET_DIR"] = os.path.join(WORK, "target-emit")
        t0 = time.time()
        r = subprocess.run(["cargo", "build", "--release", "--offline", "-q"], cwd=src, env=env,
                           stdout=subprocess.PIPE, stderr=subprocess.STDOUT, text=True)
        if r.returncode != 0:
            sys.stdout.write(r.stdout[-6000:])
            raise SystemExit("csx-emit does not build against the current /repo tree (exit 3)")
        return time.time() - t0
    finally:
        fcntl.flock(lock, fcntl.LOCK_UN)
        lock.close()


def emit(tag, specs, assign=None, seed=None):
    """Run the emitter; returns {name: ir dict}."""
    outdir = os.path.join(WORK, "ir", tag)
    os.makedirs(outdir, exist_ok=True)
    seed = env_seed() if seed is None else seed
    apath = "-"
    if assign:
        apath = os.path.join(outdir, "assign.json")
        json.dump(assign, open(apath, "w"))
    r = subprocess.run([EMIT_BIN, "emit", outdir, str(seed), apath] + list(specs),
                       stdout=subprocess.PIPE, stderr=subprocess.PIPE, text=True)
    if r.returncode != 0:
        sys.stdout.write(r.stderr[-4000:])
        raise SystemExit("csx-emit failed on the current tree (exit 3)")
    out = {}
    for sp in specs:
        name = sp.replace(":", "_")
        out[name] = json.load(open(os.path.join(outdir, name + ".json")))
    return out


def replay(tag, spec, assignments):
    outdir = os.path.join(WORK, "ir", tag)
    os.makedirs(outdir, exist_ok=True)
    apath = os.path.join(outdir, "replay_in.json")
    opath = os.path.join(outdir, "replay_out.json")
    json.dump(assignments, open(apath, "w"))
    r = subprocess.run([EMIT_BIN, "replay", spec, apath, opath], stdout=subprocess.PIPE,
                       stderr=subprocess.PIPE, text=True)
    if r.returncode != 0:
        return [{"accepted": False, "detail": "replayer crashed: " + r.stderr[-500:]}]
    return json.load(open(opath))


_replay_n = [0]


def replay_path(pid):
    """evidence/replays/<pid>.<n>.json - one file per reproduced counterexample of this run"""
    d = os.path.join(VERIF, "evidence", "replays")
    os.makedirs(d, exist_ok=True)
    _replay_n[0] += 1
    return os.path.join(d, f"{pid}.{_replay_n[0]}.json")


# ----------------------------------------------------------------------------- spec helpers
def addm(a, b):
    t = a + b
    return z3.If(t >= P, t - P, t)


def eq4(a, b):
    return z3.And([x == y for x, y in zip(a, b)])


def iv(x):
    return z3.IntVal(x) if isinstance(x, int) else x


class Sponge:
    """Poseidon2 hash_n_to_hash_no_pad (rate 8, additive absorption, '1' delimiter / extra block)
    over the uninterpreted permutation P2 of a SymX instance. Every application is recorded so its
    codomain axioms can be added to a query."""

    def __init__(self, sx):
        self.sx = sx
        self.apps = []

    def perm(self, state):
        outs = [self.sx.P2[i](*state) for i in range(12)]
        self.apps.extend(outs)
        return outs

    def hash(self, inputs):
        inputs = [iv(x) for x in inputs]
        st = [z3.IntVal(0)] * 12
        n = len(inputs)
        idx = 0
        while idx < n:
            take = min(8, n - idx)
            blk = list(inputs[idx:idx + take]) + [z3.IntVal(0)] * (8 - take)
            if idx + take == n and take < 8:
                blk[take] = z3.IntVal(1)
            st = [z3.simplify(addm(st[i], blk[i])) if i < 8 else st[i] for i in range(12)]
            st = self.perm(st)
            idx += take
        if n % 8 == 0:
            blk = [z3.IntVal(1)] + [z3.IntVal(0)] * 7
            st = [z3.simplify(addm(st[i], blk[i])) if i < 8 else st[i] for i in range(12)]
            st = self.perm(st)
        return st[:4]

    def axioms(self):
        return [z3.And(a >= 0, a < P) for a in self.apps]


def lex_lt(a, b):
    """strict lexicographic a < b, element 0 most significant"""
    e = z3.BoolVal(False)
    for x, y in reversed(list(zip(a, b))):
        e = z3.Or(x < y, z3.And(x == y, e))
    return e


def lex_le(a, b):
    e = z3.BoolVal(True)
    for x, y in reversed(list(zip(a, b))):
        e = z3.Or(x < y, z3.And(x == y, e))
    return e


def uf_apps(e):
    acc = {}
    seen = set()
    stack = [e]
    while stack:
        x = stack.pop()
        if x.get_id() in seen:
            continue
        seen.add(x.get_id())
        if z3.is_app(x) and x.num_args() == 12 and x.decl().name().startswith("P"):
            acc[x.get_id()] = x
        stack.extend(x.children())
    return list(acc.values())


# ----------------------------------------------------------------------------- sessions
class Result:
    def __init__(self, name, kind, verdict, secs, detail=None, model=None):
        self.name, self.kind, self.verdict, self.secs, self.detail, self.model = name, kind, verdict, secs, detail, model


class Session:
    """One z3 context of base assertions + a list of discharged queries.

    kinds: 'holds'  goal must be valid under base (query base ∧ ¬goal; UNSAT = discharged)
           'sat'    base ∧ extra must be satisfiable (vacuity / reachability witness)
    """

    def __init__(self, label, base, timeout_s=120, verbose=True):
        self.label = label
        self.base = list(base)
        self.timeout_s = timeout_s
        self.results = []
        self.verbose = verbose
        self.solver = z3.Solver()
        self.solver.set("timeout", int(timeout_s * 1000))
        self.solver.add(self.base)

    def add(self, *facts):
        for f in facts:
            self.base.append(f)
            self.solver.add(f)

    def _log(self, r):
        self.results.append(r)
        if self.verbose:
            print(f"  [{self.label}] {r.name:46s} {r.verdict:12s} {r.secs:7.2f}s", flush=True)

    def holds(self, name, goal, show=None, lemma=False):
        s = self.solver
        s.push()
        s.add(z3.Not(goal))
        s.add([z3.And(a >= 0, a < P) for a in uf_apps(goal)])
        t0 = time.time()
        r = s.check()
        dt = time.time() - t0
        model = None
        if r == z3.unsat:
            verdict = "HOLDS"
        elif r == z3.sat:
            verdict = "CEX"
            m = s.model()
            model = {"__model__": m}
            if show:
                model["show"] = {k: str(m.eval(v, model_completion=True)) for k, v in show.items()}
        else:
            verdict = "UNKNOWN"
        s.pop()
        res = Result(name, "holds", verdict, dt, model=model)
        self._log(res)
        if lemma and verdict == "HOLDS":
            self.add(goal)
        return res

    def sat(self, name, *extra):
        s = self.solver
        s.push()
        s.add(*extra)
        t0 = time.time()
        r = s.check()
        dt = time.time() - t0
        s.pop()
        verdict = "REACHABLE" if r == z3.sat else ("VACUOUS" if r == z3.unsat else "UNKNOWN")
        res = Result(name, "sat", verdict, dt)
        self._log(res)
        return res

    def unsat(self, name, *extra):
        """base ∧ extra must be unsatisfiable (e.g. 'no two witnesses differ')."""
        s = self.solver
        s.push()
        s.add(*extra)
        t0 = time.time()
        r = s.check()
        dt = time.time() - t0
        model = None
        if r == z3.sat:
            model = {"__model__": s.model()}
        s.pop()
        verdict = "HOLDS" if r == z3.unsat else ("CEX" if r == z3.sat else "UNKNOWN")
        res = Result(name, "holds", verdict, dt, model=model)
        self._log(res)
        return res


# ----------------------------------------------------------------------------- completeness
def completeness(sx, label, name, accept, extra=(), timeout_s=300, verbose=False):
    """'if' direction: for EVERY input satisfying `accept` some witness exists. Existential hint wires
    are Skolemised by the digits of the value they decompose (the semantics of plonky2's split/range
    generators, validated against the real generators by the honest-witness check); auxiliary
    definitional variables of the encoding (quotients, product bits) are total by construction.
    Query: accept ∧ definitions ∧ skolem ∧ ¬(all remaining constraints)  must be UNSAT."""
    facts, fits, done = sx.skolem_facts()
    def_ids = {d.get_id() for d in sx.defs}
    chks = [a for a in sx.asserts if a.get_id() not in def_ids]
    # (i) totality of the Skolem definitions: every decomposed value fits its digits whenever the input is
    # accepted. A group's fit is proved from the definitions of the OTHER groups (the circuit is a DAG, so a
    # decomposed value never depends on its own digits).
    s0 = Session(label, [], timeout_s=timeout_s, verbose=verbose)
    gaps = sum(1 for f in fits if f is None)
    t0 = time.time()
    bad, unk = [], 0
    groups = sx.skolem_groups
    common = list(sx.defs) + list(extra) + [accept]
    easy = z3.Solver()
    easy.set("timeout", int(timeout_s * 1000))
    easy.add(common)
    for k, (own, fit) in enumerate(groups):
        if fit is None:
            continue
        easy.push()
        easy.add(z3.Not(fit))
        r = easy.check()
        easy.pop()
        if r == z3.unsat:
            continue
        # needs other groups' definitions
        s2 = z3.Solver()
        s2.set("timeout", int(timeout_s * 1000))
        s2.add(common)
        for j, (own_j, _) in enumerate(groups):
            if j != k:
                s2.add(own_j)
        s2.add(z3.Not(fit))
        r = s2.check()
        if r == z3.sat:
            bad.append(k)
        elif r != z3.unsat:
            unk += 1
    n_fit = sum(1 for f in fits if f is not None)
    if n_fit:
        s0.results.append(Result(f"{name}: every split/range-checked value fits its digit width ({n_fit} groups)", "holds",
                                 "CEX" if bad else ("UNKNOWN" if unk else "HOLDS"), time.time() - t0))
    s = Session(label, list(sx.defs) + list(facts) + list(extra) + [accept], timeout_s=timeout_s, verbose=verbose)
    s.results += s0.results
    if gaps:
        s.results.append(Result(f"{name}: {gaps} hint groups with gapped digits (totality not claimed)", "holds", "UNKNOWN", 0.0))
    s.sat(name + " [vacuity: an accepted input exists]")
    # one obligation per remaining circuit constraint (they are independent given the definitions)
    t0 = time.time()
    bad, unknown = [], []
    for a in chks:
        s.solver.push()
        s.solver.add(z3.Not(a))
        r = s.solver.check()
        if r == z3.sat:
            bad.append((a, s.solver.model()))
        elif r != z3.unsat:
            unknown.append(a)
        s.solver.pop()
        if bad:
            break
    verdict = "CEX" if bad else ("UNKNOWN" if unknown else "HOLDS")
    res = Result(f"{name} ({len(chks)} circuit constraints, hints Skolemised)", "holds", verdict, time.time() - t0)
    if bad:
        res.model = {"__model__": bad[0][1]}
        res.detail = [str(bad[0][0])[:200]]
    s._log(res)
    return s


# ----------------------------------------------------------------------------- translator validation
def validate_witnesses(sx, ir, label="", timeout_s=120):
    """Every honest witness produced by the real plonky2 generators on the real circuit must
    satisfy the encoding (all assertions, and every class term must evaluate to the class value).
    Returns (n_ok, failures)."""
    ok = 0
    fails = []
    for w in ir.get("witnesses", []):
        vals = {int(k): v for k, v in w["vals"].items()}
        if not vals:
            continue
        s = z3.Solver()
        s.set("timeout", int(timeout_s * 1000))
        s.add(sx.asserts)
        n_eq = 0
        for c, t in sx.terms.items():
            if c in sx.collapsed or c in sx.elim_classes or c not in vals:
                continue
            if t.k == "c":
                if t.v != vals[c]:
                    fails.append((w["label"], f"class {c}: encoding constant {t.v} != witness {vals[c]}"))
                continue
            s.add(t.as_int() == vals[c])
            n_eq += 1
        r = s.check()
        if r == z3.sat:
            ok += 1
        else:
            fails.append((w["label"], f"encoding rejects the honest witness ({r}, {n_eq} class equalities)"))
    return ok, fails


def genfail_probes(sx, ir, accept_fn=None, timeout_s=60):
    """Completeness probe: an honest input the real witness generators could not complete. The solver
    decides whether the constraint system has ANY witness for exactly these inputs.
    Returns list of (label, named_inputs, verdict) with verdict in {'UNSAT','SAT','UNKNOWN'}."""
    out = []
    for w in ir.get("witnesses", []):
        aux = w.get("aux") or {}
        if "genfail" not in aux:
            continue
        named = aux.get("named", {})
        if accept_fn is not None and not accept_fn(named):
            continue
        s = z3.Solver()
        s.set("timeout", int(timeout_s * 1000))
        s.add(sx.asserts)
        for n, vals in named.items():
            for c, v in zip(ir["named"][n], vals):
                s.add(sx.terms[c].as_int() == v % P)
        r = s.check()
        out.append((w["label"], named, "UNSAT" if r == z3.unsat else ("SAT" if r == z3.sat else "UNKNOWN")))
    return out


def model_inputs(sx, ir, model, names):
    """Concrete values of named input classes in a z3 model."""
    out = {}
    for n in names:
        vals = []
        for c in ir["named"][n]:
            t = sx.terms[c]
            v = model.eval(t.as_int(), model_completion=True)
            vals.append(int(str(v)) % P)
        out[n] = vals
    return out


def model_free_classes(sx, model):
    out = {}
    for c, v in sx.freevars.items():
        mv = model.eval(v, model_completion=True)
        if z3.is_bool(v):
            out[str(c)] = 1 if z3.is_true(mv) else 0
        else:
            out[str(c)] = int(str(mv)) % P
    return out


def depends_on_uf(e, cache):
    """does the expression mention an uninterpreted hash application? (memoised post-order over the DAG)"""
    root = e.get_id()
    if root in cache:
        return cache[root]
    stack = [(e, False)]
    while stack:
        x, done = stack.pop()
        i = x.get_id()
        if i in cache:
            continue
        if z3.is_app(x) and x.num_args() == 12 and x.decl().name().startswith("P"):
            cache[i] = True
            continue
        ch = x.children()
        if done:
            cache[i] = any(cache.get(c.get_id(), False) for c in ch)
        else:
            stack.append((x, True))
            for c in ch:
                if c.get_id() not in cache:
                    stack.append((c, False))
    return cache[root]


def model_all_classes(sx, model):
    """Value of every wire class the model determines without going through the uninterpreted hash
    (those are left to the real generators), including the limbs hidden in collapsed range variables."""
    out = {}
    cache = {}
    for c, t in sx.terms.items():
        if c in sx.collapsed or c in sx.elim_classes:
            continue
        e = t.as_int()
        if depends_on_uf(e, cache):
            continue
        out[str(c)] = int(str(model.eval(e, model_completion=True))) % P
    for name, (var, limbs) in sx.rng_limbs.items():
        v = int(str(model.eval(var, model_completion=True)))
        for i, c in enumerate(limbs):
            out[str(c)] = (v >> i) & 1
    for name, (var, c) in sx.rng_bools.items():
        out[str(c)] = 1 if z3.is_true(model.eval(var, model_completion=True)) else 0
    return out


# ----------------------------------------------------------------------------- evidence
def write_evidence(pid, tier, t0, sessions, functions, bounds, assumptions, extra=None,
                   traces_validated=0, violations=0, known=None):
    results = [r for s in sessions for r in s.results]
    discharged = [r for r in results if r.verdict in ("HOLDS", "REACHABLE")]
    samples = [{"query": r.name, "kind": r.kind, "verdict": r.verdict, "solver_s": round(r.secs, 3)}
               for r in results[:60]]
    names = {r.name for r in results}
    cov = {
        "evaluations": len(results),
        "distinct_nontrivial": len(names),
        "rule": "one evaluation = one SMT query (base assertions of the real circuit's IR ∧ ¬goal) decided by z3 for ALL "
                "assignments of every wire within the stated bounds; distinct = distinct query names; non-trivial = the "
                "query's vacuity twin (base satisfiable / antecedent reachable) is REACHABLE",
        "samples": samples,
        "obligations": len(results),
        "discharged": len(discharged),
        "solver_time_s": round(sum(r.secs for r in results), 2),
        "functions_encoded": functions,
        "bounds": bounds,
        "traces_validated_against_impl": traces_validated,
        "inconclusive": [r.name for r in results if r.verdict == "UNKNOWN"],
        "exhaustive": False,
    }
    if extra:
        cov.update(extra)
    if known:
        cov["known_findings_reported"] = known
    ev = {
        "property_id": pid,
        "tier": tier,
        "seed": env_seed(),
        "level": "model_checking",
        "coverage": cov,
        "assumptions": assumptions,
        "wall_s": round(time.time() - t0, 2),
        "violations": violations,
    }
    os.makedirs(os.path.join(VERIF, "evidence"), exist_ok=True)
    json.dump(ev, open(os.path.join(VERIF, "evidence", f"{pid}.json"), "w"), indent=1)
    return ev
