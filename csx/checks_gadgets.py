"""C30, C31: gadget checks; gadget half of C10 lives in checks_wrappers (C10 covers wrappers + gadgets)."""
import json
import multiprocessing as mp
import os
import random
import time

import z3

import csxlib
import gadgets
import symx
from csxlib import P
from registry import register, finish

GADGET_ASSUME = [
    "gate semantics of qp-plonky2 1.5.5 as modelled in csx/symx.py (validated this run against honest witnesses)",
    "emitter reconstruction of the built gadget circuit", "z3 verdicts",
]
_G = {}


def generic_replay(pid, spec, sx, ir, res, input_names):
    """Replay a model: honest (inputs only) then adversarial (all free wires pinned)."""
    m = res.model["__model__"]
    named = csxlib.model_inputs(sx, ir, m, input_names)
    free = csxlib.model_all_classes(sx, m)
    assigns = [{"label": "inputs-only", "mode": "honest", "named": named},
               {"label": "adversarial-hints", "mode": "adversarial", "named": named, "classes": free}]
    out = csxlib.replay(pid, spec, assigns)
    path = csxlib.replay_path(pid)
    json.dump({"query": res.name, "spec": spec, "assignments": assigns, "replay": out}, open(path, "w"))
    return out, path


def _lt_job(i):
    kind, c, w = _G["inst"][i]
    name = f"{kind}_{c}_{w}"
    ir = _G["irs"][name]
    if kind == "lt":
        sx, s = gadgets.check_lt(ir, c, w)
    else:
        sx, s = gadgets.check_enf(ir, c, w)
    nval, vfails = csxlib.validate_witnesses(sx, ir, timeout_s=60)
    out = []
    for r in s.results:
        cex = None
        if r.verdict == "CEX":
            m = r.model["__model__"]
            cex = {"named": csxlib.model_inputs(sx, ir, m, ["x"]), "classes": csxlib.model_all_classes(sx, m)}
        out.append((r.name, r.kind, r.verdict, r.secs, cex))
    # completeness probe: every assigned x is in range, so the gadget must have a witness for it
    for label, named, verdict in csxlib.genfail_probes(sx, ir):
        nm = f"{kind}(c={c},w={w}): in-range element {named.get('x')} has a witness (completeness)"
        if verdict == "UNSAT":
            out.append((nm, "holds", "CEX", 0.0, {"named": named, "classes": {}, "completeness": True}))
        elif verdict == "SAT":
            out.append((nm + " [constraints satisfiable, but the real generator fails]", "holds", "UNKNOWN", 0.0, None))
        else:
            out.append((nm, "holds", "UNKNOWN", 0.0, None))
    return i, out, nval, vfails, sx.abstracted


@register("C30")
def c30(pid, tier):
    t0 = time.time()
    seed = csxlib.env_seed()
    csxlib.build_emitter()
    inst = [("lt", c, w) for c, w in gadgets.lt_instances(tier, seed)] + [("enf", b, w) for b, w in gadgets.enf_instances(tier, seed)]
    rnd = random.Random(seed)
    assign = {}
    for kind, c, w in inst:
        top = min((1 << w) - 1, P - 1)
        lim = top if kind == "lt" else min(c - 1, top)
        xs = {0, lim, min(c, lim), min(c + 1, lim), rnd.randrange(0, lim + 1)}
        assign[f"{kind}_{c}_{w}"] = [{"label": f"x={x}", "named": {"x": [x]}} for x in sorted(xs)]
    specs = [f"{k}:{c}:{w}" for k, c, w in inst]
    irs = csxlib.emit(pid, specs, assign=assign)
    _G.update(inst=inst, irs=irs)
    results, nval_tot, inconcl, replays = [], 0, [], {}
    S = csxlib.Session(pid, [], verbose=False)
    with mp.get_context("fork").Pool(16) as pool:
        for i, out, nval, vfails, abstracted in pool.imap_unordered(_lt_job, range(len(inst))):
            nval_tot += nval
            inconcl += [f"translator validation {inst[i]}: {l}: {w}" for l, w in vfails]
            if abstracted:
                inconcl.append(f"{inst[i]}: {abstracted} abstracted products (encoding not exact)")
            for (name, kind, verdict, secs, cex) in out:
                r = csxlib.Result(name, kind, verdict, secs)
                S.results.append(r)
                if verdict == "CEX":
                    k, c, w = inst[i]
                    spec = f"{k}:{c}:{w}"
                    assigns = [{"label": "inputs-only", "mode": "honest", "named": cex["named"]},
                               {"label": "adversarial-hints", "mode": "adversarial", "named": cex["named"], "classes": cex["classes"]}]
                    rp = csxlib.replay(pid, spec, assigns)
                    path = csxlib.replay_path(pid)
                    json.dump({"query": name, "spec": spec, "assignments": assigns, "replay": rp}, open(path, "w"))
                    # a gadget violation reproduces when the real verifier accepts a proof whose public
                    # output / input contradicts the integer comparison
                    ok = False
                    if cex.get("completeness") or "has a witness" in name:
                        # completeness violation reproduces when the real prover cannot prove the in-range input
                        ok = not any(o.get("accepted") for o in rp)
                    for o in rp:
                        if o.get("accepted") and not (cex.get("completeness") or "has a witness" in name):
                            x = cex["named"]["x"][0]
                            pis = o.get("public_inputs", [])
                            if k == "lt":
                                ok = ok or (pis and pis[0] != (1 if c < x else 0)) or (w < 64 and x >= (1 << w))
                            else:
                                ok = ok or x >= c
                    replays[name] = (ok, path, name + "; " + "; ".join(str(o.get("detail")) for o in rp))
    results = S.results
    for r in results:
        if r.verdict != "HOLDS" and r.verdict != "REACHABLE":
            print(f"  [{pid}] {r.name}: {r.verdict}")
    rc, known = finish(pid, results, replays, inconcl)
    csxlib.write_evidence(pid, tier, t0, [S],
                          ["zk_circuits_common::gadgets::is_const_less_than (incl. canonical 64-bit path: split_canonical_u32_halves, u32_lt)",
                           "zk_circuits_common::gadgets::enforce_target_less_than_const"],
                          {"widths": "every width 1..64", "constants": f"{len(inst)} (constant,width) instances: boundary constants 0,1,2^w-2,2^w-1 (+p-2,p-1,p,2^32 boundaries at w=64) and VERIF_SEED-random ones; the constant is a build-time Rust value, so it is concrete per instance",
                           "element": "the compared field element and every hint wire are symbolic over all of [0,p)",
                           "outside": "constants not instantiated; completeness (every in-range element has a witness) is covered by the honest witnesses validated per instance, not by a solver query"},
                          GADGET_ASSUME, extra={"instances": len(inst), "states": len(inst), "transitions": len(results)},
                          traces_validated=nval_tot, violations=1 if rc == 1 else 0, known=known)
    print(f"[{pid}] {len(inst)} gadget instances, {sum(1 for r in results if r.verdict in ('HOLDS', 'REACHABLE'))}/{len(results)} queries discharged, "
          f"{nval_tot} honest witnesses validated, wall {time.time() - t0:.1f}s, exit {rc}")
    return rc


def _sort_job(n):
    ir = _G["irs"][f"sort_{n}"]
    sx, s = gadgets.check_sort(ir, n, timeout_s=_G["timeout"])
    nval, vfails = csxlib.validate_witnesses(sx, ir, timeout_s=120)
    out = []
    for r in s.results:
        cex = None
        if r.verdict == "CEX":
            m = r.model["__model__"]
            cex = {"named": csxlib.model_inputs(sx, ir, m, [f"in_{i}" for i in range(n)]), "classes": csxlib.model_all_classes(sx, m)}
        out.append((r.name, r.kind, r.verdict, r.secs, cex))
    return n, out, nval, vfails, sx.abstracted, dict(sx.stats)


def sort_violates(ins, outs):
    key = lambda d: tuple(d)
    return sorted(map(key, ins)) != list(map(key, outs))


@register("C31")
def c31(pid, tier):
    t0 = time.time()
    seed = csxlib.env_seed()
    csxlib.build_emitter()
    ns = [1, 2, 3] if tier == "quick" else [1, 2, 3, 4]
    assign = {f"sort_{n}": gadgets.sort_assign(n, seed) for n in ns}
    irs = csxlib.emit(pid, [f"sort:{n}" for n in ns], assign=assign)
    _G.update(irs=irs, timeout=600 if tier == "quick" else 3000)
    S = csxlib.Session(pid, [], verbose=False)
    nval_tot, inconcl, replays, stats = 0, [], {}, {}
    with mp.get_context("fork").Pool(len(ns)) as pool:
        for n, out, nval, vfails, abstracted, st in pool.imap_unordered(_sort_job, ns):
            nval_tot += nval
            stats[f"n={n}"] = st
            inconcl += [f"translator validation sort n={n}: {l}: {w}" for l, w in vfails]
            for (name, kind, verdict, secs, cex) in out:
                S.results.append(csxlib.Result(name, kind, verdict, secs))
                print(f"  [{pid}] {name:70s} {verdict:10s} {secs:7.2f}s", flush=True)
                if verdict == "CEX":
                    spec = f"sort:{n}"
                    assigns = [{"label": "inputs-only", "mode": "honest", "named": cex["named"]},
                               {"label": "adversarial-hints", "mode": "adversarial", "named": cex["named"], "classes": cex["classes"]}]
                    rp = csxlib.replay(pid, spec, assigns)
                    path = csxlib.replay_path(pid)
                    json.dump({"query": name, "spec": spec, "assignments": assigns, "replay": rp}, open(path, "w"))
                    ins = [cex["named"][f"in_{i}"] for i in range(n)]
                    ok = False
                    if "has a witness" in name:
                        # completeness counterexample: reproduced when the real prover cannot prove these inputs
                        ok = not rp[0].get("accepted")
                    for o in rp:
                        if o.get("accepted") and "has a witness" not in name:
                            pis = o["public_inputs"]
                            outs = [pis[4 * i:4 * i + 4] for i in range(n)]
                            ok = ok or sort_violates(ins, outs)
                    replays[name] = (ok, path, name + "; " + "; ".join(str(o.get("detail")) for o in rp))
    rc, known = finish(pid, S.results, replays, inconcl)
    csxlib.write_evidence(pid, tier, t0, [S], ["zk_circuits_common::gadgets::sort_digests4 (split_canonical_u32_halves, halves8_lt, u32_lt, select network, recombination)"],
                          {"list_length": f"n in {ns} (every input list of that length over all canonical limbs, every hint assignment); for n = 4 only 'permutation' and 'every list has a witness' are asked, ascending order is claimed for n <= 3",
                           "outside": "n > %d (the network is an odd-even transposition loop over n; no induction over n is attempted)" % ns[-1]},
                          GADGET_ASSUME, extra={"encoding": stats, "states": len(ns), "transitions": len(S.results)},
                          traces_validated=nval_tot, violations=1 if rc == 1 else 0, known=known)
    print(f"[{pid}] n in {ns}: {sum(1 for r in S.results if r.verdict in ('HOLDS', 'REACHABLE'))}/{len(S.results)} queries discharged, "
          f"{nval_tot} honest witnesses validated, wall {time.time() - t0:.1f}s, exit {rc}")
    return rc
