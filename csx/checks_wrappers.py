"""C06-C10, C12, C13, C36: aggregation wrapper checks (CSX engine)."""
import itertools
import json
import multiprocessing as mp
import os
import time

import z3

import csxlib
import gadgets
import symx
import wrappers
from csxlib import P, Session, Result, eq4, lex_le
from registry import register, finish
from wrappers import ASSET, O1, O2, FEE, NUL, E1, E2, BH, BN, B32

W_ASSUME = [
    "every child statement satisfies what C01 proves for leaf statements (asset, outputs, fee, block number < 2^32): assume-guarantee, discharged by the C01 check",
    "gate semantics of qp-plonky2 1.5.5 as modelled in csx/symx.py (validated this run against honest witnesses of the real generators)",
    "the wrapper constraint builders are instantiated through the guarded re-exports over free child public-input targets (no recursive verifier); that a verified child proof exposes exactly these public inputs is plonky2's recursive verifier (see C11)",
    "z3 verdicts; Poseidon2 uninterpreted",
]
PRIV_FUNCS = ["wormhole_aggregator::private_batch::circuit::circuit_logic::build_private_batch_constraints (unchanged body via verif_build_private_batch_constraints)",
              "zk_circuits_common::gadgets::{bytes_digest_eq, sort_digests4, split_canonical_u32_halves, halves8_lt, u32_lt}", "hash_dummy_nullifier_pre_image"]
PUB_FUNCS = ["wormhole_aggregator::public_batch::circuit::circuit_logic::build_public_batch_constraints (unchanged body via verif_build_public_batch_constraints)",
             "zk_circuits_common::gadgets::bytes_digest_eq"]
_J = {}


def _extract(sess, sx, ir, input_names):
    out = []
    for r in sess.results:
        cex = None
        if r.verdict == "CEX" and r.model:
            m = r.model["__model__"]
            cex = {"named": csxlib.model_inputs(sx, ir, m, input_names), "classes": csxlib.model_all_classes(sx, m)}
            if getattr(sess, "copy_b", None) is not None:       # self-composition: the second witness copy
                cex["classes_b"] = csxlib.model_all_classes(sess.copy_b, m)
        out.append((r.name, r.kind, r.verdict, r.secs, cex))
    return out


def _job(i):
    kind, args = _J["jobs"][i]
    return i, _J["fns"][kind](*args)


def run_jobs(jobs, fns, nproc=16):
    _J.update(jobs=jobs, fns=fns)
    res = [None] * len(jobs)
    with mp.get_context("fork").Pool(min(nproc, max(1, len(jobs)))) as pool:
        for i, r in pool.imap_unordered(_job, range(len(jobs))):
            res[i] = r
            for (name, kind, verdict, secs, cex) in r["results"]:
                print(f"  {name:100s} {verdict:10s} {secs:7.2f}s", flush=True)
    return res


# ----------------------------------------------------------------------------- concrete specs (replay oracles)
def priv_concrete_ok(n, named, pis):
    """Does the (inputs, public output) pair of an ACCEPTED proof agree with the private-batch spec?
    (hash-dependent parts - dummy replacement nullifiers - are only checked structurally)"""
    ch = [named[f"child_{i}"] for i in range(n)]
    real = [any(v != 0 for v in c[BH:BH + 4]) for c in ch]
    why = []
    if any(c[ASSET] != ch[0][ASSET] for c in ch):
        why.append("slots with different asset ids accepted")
    reals = [c for c, r in zip(ch, real) if r]
    if reals:
        if any(c[BH:BH + 4] != reals[0][BH:BH + 4] for c in reals):
            why.append("real slots with different block hashes accepted")
        if any(c[FEE] != reals[0][FEE] for c in reals):
            why.append("real slots with different fees accepted")
    nl = [tuple(c[NUL:NUL + 4]) for c in reals]
    if len(set(nl)) != len(nl):
        why.append("duplicate real nullifiers accepted")
    slots = []
    for c, r in zip(ch, real):
        for ea, oa in ((E1, O1), (E2, O2)):
            slots.append((tuple(c[ea:ea + 4]), c[oa]) if r else ((0, 0, 0, 0), 0))
    first = reals[0] if reals else None
    hdr = [2 * n, ch[0][ASSET], first[FEE] if first else 0] + (first[BH:BH + 4] if first else [0] * 4) + [first[BN] if first else 0]
    if pis[:8] != hdr:
        why.append(f"header {pis[:8]} != spec {hdr}")
    for k, (acct, amt) in enumerate(slots):
        tot = sum(m for a, m in slots if a == acct)
        dup = any(slots[j][0] == acct for j in range(k))
        exp = [0] * 5 if dup else [tot] + list(acct)
        if tot >= B32 and not dup:
            why.append(f"group sum {tot} >= 2^32 accepted")
        if pis[8 + 5 * k: 13 + 5 * k] != [e % P for e in exp]:
            why.append(f"exit slot {k} {pis[8 + 5 * k: 13 + 5 * k]} != spec {exp}")
    ns = 8 + 10 * n
    outn = [tuple(pis[ns + 4 * i: ns + 4 * i + 4]) for i in range(n)]
    if outn != sorted(outn):
        why.append("nullifier region not ascending")
    for x in set(nl):
        if outn.count(x) < nl.count(x):
            why.append("a real nullifier is missing from the output region")
    if any(v != 0 for v in pis[ns + 4 * n:]) or len(pis) != 21 * n + 8:
        why.append("padding/length wrong")
    tot_out = sum(pis[8 + 5 * k] for k in range(2 * n))
    tot_real = sum(c[O1] + c[O2] for c in reals)
    if tot_out != tot_real:
        why.append(f"value not conserved: outputs {tot_out} vs real leaves {tot_real}")
    return why


def pub_concrete_ok(m, n, named, pis):
    ch = [named[f"child_{i}"] for i in range(m)]
    real = [any(v != 0 for v in c[3:7]) for c in ch]
    reals = [c for c, r in zip(ch, real) if r]
    why = []
    if reals:
        for nm, sl in (("block hash", slice(3, 7)), ("asset", slice(1, 2)), ("fee", slice(2, 3))):
            if any(c[sl] != reals[0][sl] for c in reals):
                why.append(f"real inners with different {nm} accepted")
    f = reals[0] if reals else None
    exp = list(named["addr"]) + ([f[1], f[2]] + f[3:7] + [f[7]] if f else [0] * 7) + [2 * n * m]
    for c, r in zip(ch, real):
        exp += [v if r else 0 for v in c[8:8 + 10 * n]]
    for c, r in zip(ch, real):
        exp += [v if r else 0 for v in c[8 + 10 * n: 8 + 14 * n]]
    if pis != exp:
        bad = [k for k in range(min(len(pis), len(exp))) if pis[k] != exp[k]][:4]
        why.append(f"public output differs from forwarding spec at indices {bad} (len {len(pis)} vs {len(exp)})")
    return why


def literal_dummy_slot_oracle(n, named, pis):
    """oracle for the literal C09 sentence 'every dummy output slot is the all-zero slot'"""
    ch = [named[f"child_{i}"] for i in range(n)]
    real = [any(v != 0 for v in c[BH:BH + 4]) for c in ch]
    pays_zero = any(r and ((c[E1:E1 + 4] == [0] * 4 and c[O1] != 0) or (c[E2:E2 + 4] == [0] * 4 and c[O2] != 0)) for c, r in zip(ch, real))
    why = []
    for i in range(n):
        if not real[i]:
            for k in (2 * i, 2 * i + 1):
                sl = pis[8 + 5 * k: 13 + 5 * k]
                if any(v != 0 for v in sl):
                    if sl[1:] == [0] * 4 and pays_zero:
                        why.append(f"zero-account payment of a real slot surfaces in dummy slot (slot {k} = {sl})")
                    else:
                        why.append(f"dummy slot {k} exposes {sl}")
    return why


def replay_wrapper(pid, spec, name, cex, oracle):
    assigns = [{"label": "inputs-only", "mode": "honest", "named": cex["named"]},
               {"label": "adversarial-hints", "mode": "adversarial", "named": cex["named"], "classes": cex["classes"]}]
    rp = csxlib.replay(pid, spec, assigns)
    ok, reasons = False, []
    if "the wrapper is satisfiable" in name:
        # completeness counterexample: reproduced when the real prover cannot prove an input the spec accepts
        ok = not rp[0].get("accepted")
        reasons = ["real prover fails on an input that satisfies the acceptance condition: " + str(rp[0].get("detail"))] if ok else []
    for o in rp:
        if o.get("accepted") and "the wrapper is satisfiable" not in name:
            why = oracle(cex["named"], o["public_inputs"])
            o["contradicts_spec"] = why
            if why:
                ok = True
                reasons += why
    path = csxlib.replay_path(pid)
    json.dump({"query": name, "spec": spec, "assignments": assigns, "replay": rp}, open(path, "w"))
    what = name + "; " + ("real verifier accepted a proof whose statement contradicts the spec: " + "; ".join(reasons[:3]) if ok
                          else "; ".join(str(o.get("detail")) for o in rp))
    return ok, path, what


# ----------------------------------------------------------------------------- private wrapper jobs
def _priv_job(n, part, tier, validate):
    ir = _J["irs"][f"priv_{n}"]
    Pv = wrappers.Priv(ir, n)
    to = 600 if tier == "quick" else 3600
    names = [f"child_{i}" for i in range(n)] + [f"pre_{i}" for i in range(n)]
    nval, vfails = (csxlib.validate_witnesses(Pv.sx, ir) if validate else (0, []))
    s = _PRIV_PARTS[part](Pv, tier, to)
    return {"results": _extract(s, Pv.sx, ir, names), "nval": nval, "vfails": vfails, "stats": Pv.stats(), "key": (n, part)}


def _c06_a(Pv, tier, to):
    s = wrappers.c06(Pv, tier, timeout_s=to, part="a")
    return s


def _c06_b(Pv, tier, to):
    return wrappers.c06(Pv, tier, timeout_s=to, part="b")


_PRIV_PARTS = {
    "c06a": _c06_a, "c06b": _c06_b,
    "c07": lambda Pv, tier, to: wrappers.c07_only_if(Pv, tier, timeout_s=to),
    "c07if": lambda Pv, tier, to: wrappers.c07_if(Pv, tier, timeout_s=to),
    "c08": lambda Pv, tier, to: wrappers.c08(Pv, tier, timeout_s=to),
    "c09": lambda Pv, tier, to: wrappers.c09_circuit(Pv, tier, timeout_s=to),
    "c10": lambda Pv, tier, to: wrappers.c10_priv(Pv, tier, timeout_s=to),
}


def run_priv(pid, tier, parts, ns, funcs_extra=(), extra_jobs=None, extra_fns=None, bounds_extra=None):
    t0 = time.time()
    seed = csxlib.env_seed()
    csxlib.build_emitter()
    assign = {f"priv_{n}": wrappers.priv_honest_inputs(n, seed) for n in ns}
    irs = csxlib.emit(pid, [f"priv:{n}" for n in ns], assign=assign)
    _J.update(irs=irs)
    jobs = []
    for n in ns:
        for j, part in enumerate(parts):
            jobs.append(("priv", (n, part, tier, j == 0)))
    fns = {"priv": _priv_job}
    if extra_jobs:
        jobs += extra_jobs
        fns.update(extra_fns)
    res = run_jobs(jobs, fns)
    S = Session(pid, [], verbose=False)
    nval, inconcl, replays, stats = 0, [], {}, {}
    for (kind, args), r in zip(jobs, res):
        nval += r.get("nval", 0)
        inconcl += [f"translator validation {r.get('key')}: {l}: {w}" for l, w in r.get("vfails", [])]
        stats[str(r.get("key"))] = r.get("stats")
        if r.get("stats", {}).get("abstracted_products"):
            inconcl.append(f"{r.get('key')}: encoding used abstracted products")
        for (name, k, verdict, secs, cex) in r["results"]:
            S.results.append(Result(name, k, verdict, secs))
            if verdict == "CEX" and cex is not None and r.get("replay"):
                spec, oracle = r["replay"]
                replays[name] = replay_wrapper(pid, spec, name, cex, oracle)
            elif verdict == "CEX" and cex is not None and kind == "priv":
                n = args[0]
                if "LITERAL dummy slot" in name:
                    orc = lambda nm, pis, n=n: literal_dummy_slot_oracle(n, nm, pis)
                else:
                    orc = lambda nm, pis, n=n: priv_concrete_ok(n, nm, pis)
                replays[name] = replay_wrapper(pid, f"priv:{n}", name, cex, orc)
    rc, known = finish(pid, S.results, replays, inconcl)
    bounds = {"N": f"private wrapper for N in {list(ns)}: all child public-input vectors and dummy preimages over [0,p), every hint wire symbolic",
              "outside": f"N > {max(ns)} (the builder loops over slots; no induction over N is attempted); the recursive verifier part of the full circuit"}
    if bounds_extra:
        bounds.update(bounds_extra)
    csxlib.write_evidence(pid, tier, t0, [S], PRIV_FUNCS + list(funcs_extra), bounds, W_ASSUME,
                          extra={"encoding": stats, "states": sum((v or {}).get("classes", 0) for v in stats.values()),
                                 "transitions": sum((v or {}).get("assertions", 0) for v in stats.values())},
                          traces_validated=nval, violations=1 if rc == 1 else 0, known=known)
    print(f"[{pid}] {sum(1 for r in S.results if r.verdict in ('HOLDS', 'REACHABLE'))}/{len(S.results)} queries discharged, "
          f"{nval} honest witnesses validated, wall {time.time() - t0:.1f}s, exit {rc}")
    return rc


@register("C06")
def c06(pid, tier):
    return run_priv(pid, tier, ["c06a", "c06b"], [1, 2] if tier == "quick" else [1, 2, 3])


@register("C07")
def c07(pid, tier):
    return run_priv(pid, tier, ["c07", "c07if"], [1, 2, 3] if tier == "quick" else [1, 2, 3, 4])


@register("C08")
def c08(pid, tier):
    return run_priv(pid, tier, ["c08"], [1, 2, 3] if tier == "quick" else [1, 2, 3, 4])


@register("C09")
def c09(pid, tier):
    ns = [1, 2] if tier == "quick" else [1, 2, 3]
    extra = [("spec", (n,)) for n in ([1, 2, 3] if tier == "quick" else [1, 2, 3])]
    return run_priv(pid, tier, ["c09"], ns, extra_jobs=extra, extra_fns={"spec": _c09_spec_job},
                    bounds_extra={"composition": "circuit output = spec O(x) is proven on the circuit (N as above); slot-permutation and dummy-content "
                                                 "invariance of O are then solver-checked on the spec for N<=3 (all N! permutations)"})


def _c09_spec_job(n):
    s = wrappers.c09_spec(n, timeout_s=600)
    return {"results": [(r.name, r.kind, r.verdict, r.secs, None) for r in s.results], "key": ("spec", n)}


# ----------------------------------------------------------------------------- public wrapper
def _pub_job(m, n, part, tier, validate):
    ir = _J["irs"][f"pub_{m}_{n}"]
    Pb = wrappers.Pub(ir, m, n)
    names = [f"child_{i}" for i in range(m)] + ["addr"]
    nval, vfails = (csxlib.validate_witnesses(Pb.sx, ir) if validate else (0, []))
    s = {"c12": wrappers.c12, "c13": wrappers.c13_only_if, "c13if": wrappers.c13_if, "c10": wrappers.c10_pub}[part](Pb, tier)
    return {"results": _extract(s, Pb.sx, ir, names), "nval": nval, "vfails": vfails, "stats": Pb.stats(), "key": (m, n, part)}


def run_pub(pid, tier, parts, sizes):
    t0 = time.time()
    seed = csxlib.env_seed()
    csxlib.build_emitter()
    assign = {f"pub_{m}_{n}": wrappers.pub_honest_inputs(m, n, seed) for m, n in sizes}
    irs = csxlib.emit(pid, [f"pub:{m}:{n}" for m, n in sizes], assign=assign)
    _J.update(irs=irs)
    jobs = [("pub", (m, n, part, tier, j == 0)) for m, n in sizes for j, part in enumerate(parts)]
    res = run_jobs(jobs, {"pub": _pub_job})
    S = Session(pid, [], verbose=False)
    nval, inconcl, replays, stats = 0, [], {}, {}
    for (kind, args), r in zip(jobs, res):
        nval += r["nval"]
        inconcl += [f"translator validation {r['key']}: {l}: {w}" for l, w in r["vfails"]]
        stats[str(r["key"])] = r["stats"]
        for (name, k, verdict, secs, cex) in r["results"]:
            S.results.append(Result(name, k, verdict, secs))
            if verdict == "CEX" and cex is not None:
                m, n = args[0], args[1]
                replays[name] = replay_wrapper(pid, f"pub:{m}:{n}", name, cex, lambda nm, pis, m=m, n=n: pub_concrete_ok(m, n, nm, pis))
    rc, known = finish(pid, S.results, replays, inconcl)
    csxlib.write_evidence(pid, tier, t0, [S], PUB_FUNCS,
                          {"sizes": f"public wrapper for (M,N) in {sizes}: all inner public-input vectors and addresses over [0,p)",
                           "outside": "larger M,N (loops over inners/slots; no induction attempted); the recursive verifier"},
                          W_ASSUME[1:], extra={"encoding": stats, "states": sum(v["classes"] for v in stats.values()),
                                               "transitions": sum(v["assertions"] for v in stats.values())},
                          traces_validated=nval, violations=1 if rc == 1 else 0, known=known)
    print(f"[{pid}] {sum(1 for r in S.results if r.verdict in ('HOLDS', 'REACHABLE'))}/{len(S.results)} queries discharged, "
          f"{nval} honest witnesses validated, wall {time.time() - t0:.1f}s, exit {rc}")
    return rc


PUB_SIZES_Q = [(1, 1), (2, 1), (2, 2), (3, 1), (3, 2)]
PUB_SIZES_T = PUB_SIZES_Q + [(4, 2), (2, 4), (3, 3), (4, 4)]


@register("C12")
def c12(pid, tier):
    return run_pub(pid, tier, ["c12"], PUB_SIZES_Q if tier == "quick" else PUB_SIZES_T)


@register("C13")
def c13(pid, tier):
    return run_pub(pid, tier, ["c13", "c13if"], PUB_SIZES_Q if tier == "quick" else PUB_SIZES_T)


# ----------------------------------------------------------------------------- C10
def _c10_gadget_job(kind, arg):
    ir = _J["irs"][arg]
    if kind == "sort":
        n = int(arg.split("_")[1])
        a, s = gadgets.determinism(ir, [f"in_{i}" for i in range(n)], None, f"sort_digests4 n={n}", timeout_s=900)
        names = [f"in_{i}" for i in range(n)]
    elif kind == "lt":
        a, s = gadgets.determinism(ir, ["x"], ["lt"], f"is_const_less_than {arg}", timeout_s=120)
        names = ["x"]
    else:
        a, s = gadgets.determinism(ir, ["a", "c"], ["e"], "bytes_digest_eq", timeout_s=120)
        names = ["a", "c"]
    s.verbose = False
    return {"results": _extract(s, a, ir, names), "nval": 0, "vfails": [], "stats": dict(a.stats, classes=len(a.terms), assertions=len(a.asserts), abstracted_products=a.abstracted), "key": (kind, arg)}


@register("C10")
def c10(pid, tier):
    t0 = time.time()
    seed = csxlib.env_seed()
    csxlib.build_emitter()
    ns = [1, 2] if tier == "quick" else [1, 2, 3]
    sizes = [(1, 1), (2, 1), (2, 2)] if tier == "quick" else PUB_SIZES_Q
    sorts = [2]   # n = 3 self-composition has no verdict after 15 min; uniqueness for n <= 3 already follows from C31 (sorted permutation)
    lts = [(0, 64), (1, 64), ((1 << 32) - 1, 64), (P - 1, 64), (5, 5), (123456789, 63)]
    specs = [f"priv:{n}" for n in ns] + [f"pub:{m}:{n}" for m, n in sizes] + [f"sort:{n}" for n in sorts] + [f"lt:{c}:{w}" for c, w in lts] + ["eq"]
    irs = csxlib.emit(pid, specs)
    _J.update(irs=irs)
    jobs = [("priv", (n, "c10", tier, False)) for n in ns] + [("pub", (m, n, "c10", tier, False)) for m, n in sizes]
    jobs += [("gadget", ("sort", f"sort_{n}")) for n in sorts] + [("gadget", ("lt", f"lt_{c}_{w}")) for c, w in lts] + [("gadget", ("eq", "eq"))]
    res = run_jobs(jobs, {"priv": _priv_job, "pub": _pub_job, "gadget": _c10_gadget_job})
    S = Session(pid, [], verbose=False)
    inconcl, replays, stats = [], {}, {}
    for (kind, args), r in zip(jobs, res):
        stats[str(r["key"])] = r["stats"]
        if r["stats"].get("abstracted_products"):
            inconcl.append(f"{r['key']}: encoding used abstracted products")
        for (name, k, verdict, secs, cex) in r["results"]:
            S.results.append(Result(name, k, verdict, secs))
            if verdict == "CEX" and cex is not None:
                # a determinism counterexample = two witnesses; replay witness A adversarially and compare with the honest run
                spec = {"priv": lambda a: f"priv:{a[0]}", "pub": lambda a: f"pub:{a[0]}:{a[1]}", "gadget": lambda a: a[1].replace("_", ":")}[kind](args)
                assigns = [{"label": "honest", "mode": "honest", "named": cex["named"]},
                           {"label": "adversarial-hints", "mode": "adversarial", "named": cex["named"], "classes": cex["classes"]}]
                if cex.get("classes_b"):        # either copy of the two-witness model may be the one that differs from the honest run
                    assigns.append({"label": "adversarial-hints (second witness)", "mode": "adversarial", "named": cex["named"], "classes": cex["classes_b"]})
                rp = csxlib.replay(pid, spec, assigns)
                path = csxlib.replay_path(pid)
                json.dump({"query": name, "spec": spec, "assignments": assigns, "replay": rp}, open(path, "w"))
                acc = [o for o in rp if o.get("accepted")]
                ok = len({tuple(o["public_inputs"]) for o in acc}) >= 2
                if not ok and rp[0].get("accepted") is False and any(o.get("accepted") for o in rp[1:]):
                    ok = True   # honest witness fails, adversarial hints pass
                replays[name] = (ok, path, name + "; " + ("two accepted proofs over the same inputs expose different public outputs" if ok
                                                          else "; ".join(str(o.get("detail")) for o in rp)))
    rc, known = finish(pid, S.results, replays, inconcl)
    csxlib.write_evidence(pid, tier, t0, [S], PRIV_FUNCS + PUB_FUNCS + ["zk_circuits_common::gadgets::{sort_digests4, is_const_less_than, bytes_digest_eq}"],
                          {"sizes": f"private wrapper N in {ns}; public wrapper (M,N) in {sizes}; sort n in {sorts}; less-than (constant,width) in {lts}; bytes_digest_eq",
                           "method": "self-composition: two copies of every non-input wire over shared inputs, outputs asserted different (UNSAT = no witness freedom)",
                           "outside": "larger sizes; 'an honest-failing batch cannot be made to pass' is the completeness direction covered by C07/C13"},
                          W_ASSUME[1:], extra={"encoding": stats, "states": sum(v.get("classes", 0) for v in stats.values()),
                                               "transitions": sum(v.get("assertions", 0) for v in stats.values())},
                          traces_validated=0, violations=1 if rc == 1 else 0, known=known)
    print(f"[{pid}] {sum(1 for r in S.results if r.verdict in ('HOLDS', 'REACHABLE'))}/{len(S.results)} queries discharged, wall {time.time() - t0:.1f}s, exit {rc}")
    return rc


# ----------------------------------------------------------------------------- C36
def _c36_job(m, n):
    s, inners, Pb = wrappers.c36(_J["irs"][f"priv_{n}"], _J["irs"][f"pub_{m}_{n}"], m, n, timeout_s=_J["timeout"])
    out = []
    for r in s.results:
        cex = None
        if r.verdict == "CEX" and r.model:
            mm = r.model["__model__"]
            cex = {"inners": [csxlib.model_inputs(Pv.sx, Pv.ir, mm, [f"child_{i}" for i in range(n)] + [f"pre_{i}" for i in range(n)]) for Pv in inners],
                   "addr": csxlib.model_inputs(Pb.sx, Pb.ir, mm, ["addr"])["addr"]}
        out.append((r.name, r.kind, r.verdict, r.secs, cex))
    st = inners[0].stats()
    st["classes"] = sum(len(x.sx.terms) for x in inners) + len(Pb.sx.terms)
    st["assertions"] = sum(len(x.sx.asserts) for x in inners) + len(Pb.sx.asserts)
    return {"results": out, "stats": st, "key": (m, n)}


def replay_c36(pid, m, n, name, cex):
    """run the two real wrappers in sequence: inner public outputs of accepted private proofs feed the public wrapper"""
    inner_out, log = [], []
    for i in range(m):
        rp = csxlib.replay(pid, f"priv:{n}", [{"label": f"inner {i}", "mode": "honest", "named": cex["inners"][i]}])
        log.append(rp)
        if not rp[0].get("accepted"):
            return False, "", f"{name}; inner {i} did not prove: {rp[0].get('detail')}"
        inner_out.append(rp[0]["public_inputs"])
    named = {f"child_{i}": inner_out[i] for i in range(m)}
    named["addr"] = cex["addr"]
    rp = csxlib.replay(pid, f"pub:{m}:{n}", [{"label": "outer", "mode": "honest", "named": named}])
    log.append(rp)
    path = csxlib.replay_path(pid)
    json.dump({"query": name, "cex": cex, "replay": log}, open(path, "w"))
    if not rp[0].get("accepted"):
        return False, path, f"{name}; outer did not prove: {rp[0].get('detail')}"
    pis = rp[0]["public_inputs"]
    out_sum = sum(pis[12 + 5 * k] for k in range(2 * n * m))
    leaf_sum, nulls = 0, []
    for i in range(m):
        for j in range(n):
            c = cex["inners"][i][f"child_{j}"]
            if any(v != 0 for v in c[BH:BH + 4]):
                leaf_sum += c[O1] + c[O2]
                nulls.append(tuple(c[NUL:NUL + 4]))
    ns = 12 + 10 * n * m
    outn = [tuple(pis[ns + 4 * k: ns + 4 * k + 4]) for k in range(n * m)]
    why = []
    if out_sum != leaf_sum:
        why.append(f"two-layer value not conserved: public exits {out_sum} vs real leaves {leaf_sum}")
    if any(outn.count(x) < nulls.count(x) for x in set(nulls)):
        why.append("a real leaf nullifier is missing from the public output")
    return bool(why), path, name + "; " + ("; ".join(why) if why else "replayed pipeline agrees with the spec")


@register("C36")
def c36(pid, tier):
    t0 = time.time()
    seed = csxlib.env_seed()
    csxlib.build_emitter()
    sizes = [(1, 2), (2, 1), (2, 2)] if tier == "quick" else [(1, 2), (2, 1), (2, 2), (3, 1), (3, 2)]
    ns = sorted({n for _, n in sizes})
    irs = csxlib.emit(pid, [f"priv:{n}" for n in ns] + [f"pub:{m}:{n}" for m, n in sizes])
    _J.update(irs=irs, timeout=600 if tier == "quick" else 3600)
    jobs = [("c36", (m, n)) for m, n in sizes]
    res = run_jobs(jobs, {"c36": _c36_job})
    S = Session(pid, [], verbose=False)
    inconcl, replays, stats = [], {}, {}
    for (kind, args), r in zip(jobs, res):
        stats[str(r["key"])] = r["stats"]
        for (name, k, verdict, secs, cex) in r["results"]:
            S.results.append(Result(name, k, verdict, secs))
            if verdict == "CEX" and cex is not None:
                replays[name] = replay_c36(pid, args[0], args[1], name, cex)
    rc, known = finish(pid, S.results, replays, inconcl)
    csxlib.write_evidence(pid, tier, t0, [S], PRIV_FUNCS + PUB_FUNCS,
                          {"sizes": f"(M,N) in {sizes}: M copies of the private wrapper IR chained into the public wrapper IR in one solver context; all leaf statements, preimages, address symbolic",
                           "outside": "larger M,N; the two recursive verifiers between the layers (see C11)"},
                          W_ASSUME, extra={"encoding": stats, "states": sum(v["classes"] for v in stats.values()), "transitions": sum(v["assertions"] for v in stats.values())},
                          traces_validated=0, violations=1 if rc == 1 else 0, known=known)
    print(f"[{pid}] {sum(1 for r in S.results if r.verdict in ('HOLDS', 'REACHABLE'))}/{len(S.results)} queries discharged, wall {time.time() - t0:.1f}s, exit {rc}")
    return rc


# ----------------------------------------------------------------------------- C11 (structural half)
def c11_pi_chain(ir, prow, pis, rate=8):
    """plonky2's verify_proof hashes the child's public inputs with hash_n_to_hash_no_pad (state 0, overwrite-absorb 8 at a time,
    permute) and observes the digest in the challenger. Find that chain among the circuit's PoseidonGate rows by copy class
    (constants compared by value). Returns ([row index of each permutation], reason)."""
    cval = {c: v for c, v in ir.get("extra_constants", [])}

    def same(a, b):
        return a == b or (a in cval and b in cval and cval[a] == cval[b])

    def is_zero(c):
        return cval.get(c) == 0
    chunks = [pis[i:i + rate] for i in range(0, len(pis), rate)]
    cands = [(None, None)]
    chain = []
    for ci, ch in enumerate(chunks):
        nxt = []
        for (prev, _) in cands:
            for ri, r in enumerate(prow):
                w = r["w"]
                if not is_zero(w[24]):          # swap flag must be the constant 0
                    continue
                if not all(same(a, b) for a, b in zip(w[:len(ch)], ch)):
                    continue
                rest = w[len(ch):12]
                if prev is None:
                    ok = all(is_zero(c) for c in rest)
                else:
                    ok = all(same(a, b) for a, b in zip(rest, prow[prev]["w"][12 + len(ch):24]))
                if ok:
                    nxt.append((ri, prev))
        if not nxt:
            return None, f"no PoseidonGate row absorbs public inputs {ci * rate}..{ci * rate + len(ch) - 1} of this slot in sponge position {ci}"
        cands = nxt
        chain.append(nxt[0][0])
    last = prow[cands[0][0]]["w"][12:16]
    used = any(any(c in r["w"][:12] for c in last) for ri, r in enumerate(prow) if ri != cands[0][0])
    if not used:
        return None, "the public-input digest of this slot is never absorbed by the challenger"
    return chain, "ok"



@register("C11")
def c11(pid, tier):
    t0 = time.time()
    csxlib.build_emitter()
    specs = ["privfull:2", "pubfull:2:1"] if tier == "quick" else ["privfull:1", "privfull:2", "privfull:3", "pubfull:1:1", "pubfull:2:1", "pubfull:2:2"]
    irs = csxlib.emit(pid, specs)
    S = Session(pid, [], verbose=True)
    replays, inconcl, stats = {}, [], {}
    for sp in specs:
        name = sp.replace(":", "_")
        ir = irs[name]
        pg = [i for i, g in enumerate(ir["gate_types"]) if g.startswith("PoseidonGate")]
        prow = [r for r in ir["rows"] if r["g"] in pg]
        sx = symx.SymX(dict(ir, rows=[r for r in ir["rows"] if r["g"] not in pg]), inputs=[])
        vk = sx.named("vk")
        exp = ir["consts"]["vk_expected"]
        stats[name] = {"rows_total": ir["degree"], "constant_rows": len(ir["rows"]), "gate_row_histogram": dict(zip(ir["gate_types"], ir["row_histogram"])),
                       "vk_wires": len(vk), "refuses_wrong_pi_count (concrete observation)": ir["consts"].get("refuses_wrong_pi_count")}
        s = Session(f"C11 {name}", sx.asserts, timeout_s=60, verbose=False)
        if len(vk) != len(exp) or len(vk) < 8:
            S.results.append(Result(f"{name}: recorded verifier-key wires match the canonical key length", "holds", "CEX", 0.0))
            continue
        free = sum(1 for t in vk if t.k != "c")
        s.sat(f"{name}: vacuity, the constant-gate constraints are satisfiable")
        r = s.holds(f"{name}: in every witness all {len(vk)} child verifier-key wires (circuit digest + Merkle cap) equal the canonical child's key "
                    f"({len(vk) - free} pinned by constant gates)", z3.And([t.as_int() == e for t, e in zip(vk, exp)]))
        S.results += s.results
        for q in s.results:
            print(f"  {q.name:120s} {q.verdict:10s} {q.secs:6.2f}s", flush=True)
        if r.verdict == "CEX":
            rp = csxlib.replay(pid, "privfull:1", [{"label": "foreign-circuit attack", "mode": "vk_attack"}])
            path = csxlib.replay_path(pid)
            json.dump({"query": r.name, "replay": rp}, open(path, "w"))
            ok = bool(rp and rp[0].get("accepted"))
            replays[r.name] = (ok, path, r.name + "; " + ("the real private-batch circuit proved and verified a proof of an UNCONSTRAINED foreign circuit "
                               "(fee 20000 bps) with the foreign verifier key on the key wires" if ok else str(rp[0].get("detail"))))
        # every child slot's public inputs are the ones its recursive verifier hashes into the transcript
        slots = sorted(int(k.split("_")[1]) for k in ir["named"] if k.startswith("child_") and k.endswith("_pis"))
        heads = []
        for i in slots:
            chain, why = c11_pi_chain(ir, prow, ir["named"][f"child_{i}_pis"])
            nm = (f"{name}: slot {i}: a recursive-verifier instance absorbs exactly this slot's {len(ir['named'][f'child_{i}_pis'])} public inputs "
                  f"(Poseidon sponge from the zero state, in order) and its digest enters the Fiat-Shamir transcript")
            r = Result(nm, "holds", "HOLDS" if chain else "CEX", 0.0, detail=why, model={"slot": i} if not chain else None)
            S.results.append(r)
            print(f"  {nm:120s} {r.verdict:10s}" + ("" if chain else f"  ({why})"), flush=True)
            if chain:
                heads.append(chain[0])
            else:
                rp = csxlib.replay(pid, "privfull:1", [{"label": f"foreign proof in slot {i}", "mode": "slot_attack", "slot": min(i, 1)}])
                path = csxlib.replay_path(pid)
                json.dump({"query": nm, "why": why, "replay": rp}, open(path, "w"))
                ok = bool(rp and rp[0].get("accepted"))
                replays[nm] = (ok, path, nm + "; " + str(rp[0].get("detail") if rp else "no replay output"))
        distinct = len(set(heads)) == len(heads)
        S.results.append(Result(f"{name}: the {len(slots)} slots are bound to {len(slots)} pairwise distinct verifier instances", "holds",
                                "HOLDS" if distinct and len(heads) == len(slots) else ("CEX" if not distinct else "UNKNOWN"), 0.0))
        stats[name]["poseidon_rows"] = len(prow)
        if ir["consts"].get("refuses_wrong_pi_count") == [0]:
            inconcl.append(f"{name}: constructor accepted a child circuit with the wrong public-input count (concrete observation)")
    rc, known = finish(pid, S.results, replays, inconcl)
    csxlib.write_evidence(pid, tier, t0, [S], ["wormhole_aggregator::common::recursive::add_recursive_verifiers (real PrivateBatchCircuit::new / PublicBatchCircuit::new over the canonical child circuits)",
                                               "plonky2 CircuitBuilder::constant_verifier_data as built (ConstantGate rows + copy classes of the recorded key wires)"],
                          {"circuits": f"{specs}: the full recursive circuits built by the real constructors (4096 rows); the constants, the PoseidonGate rows, and the copy classes of the recorded key wires and of each slot's proof public inputs are encoded",
                           "claim": "no witness can put a different verifier key on the wires that verify_proof reads; every child slot's public inputs are absorbed (in order, from the zero state) by its own "
                                    "recursive-verifier instance whose digest enters the transcript (copy-class/constant-value matching over the PoseidonGate rows of the built circuit: a structural query, decided without the solver)",
                           "outside": "that a pinned key makes proofs of any other circuit unsatisfiable is FRI/PLONK recursive-verifier soundness (plonky2), assumed; larger N/M use the same single call; the PI-count refusal is a concrete observation, not a solver claim"},
                          W_ASSUME[1:2] + ["guarded recorder hook in add_recursive_verifiers names the key wires"],
                          extra={"encoding": stats, "states": sum(v["constant_rows"] for v in stats.values()), "transitions": sum(v["vk_wires"] for v in stats.values())},
                          traces_validated=0, violations=1 if rc == 1 else 0, known=known)
    print(f"[{pid}] {sum(1 for r in S.results if r.verdict in ('HOLDS', 'REACHABLE'))}/{len(S.results)} queries discharged, wall {time.time() - t0:.1f}s, exit {rc}")
    return rc
