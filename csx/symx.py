"""Probe v2: typed symbolic executor over the Plonky2 gate IR -> z3.

Every equivalence class of wires gets a typed term:
  ('c', k)            constant
  ('b', z3 Bool)      value in {0,1}
  ('i', z3 Int,lo,hi) canonical field element with proven integer bounds
Constraints that are not used as definitions become assertions.
"""
import json, sys, time, itertools
import z3

P = 2**64 - 2**32 + 1


def signed(k):
    k %= P
    return k - P if k > P // 2 else k


class T:
    __slots__ = ("k", "v", "lo", "hi")

    def __init__(self, k, v, lo=None, hi=None):
        self.k, self.v, self.lo, self.hi = k, v, lo, hi

    @staticmethod
    def const(c):
        c %= P
        return T("c", c, c, c)

    @staticmethod
    def boolean(b):
        return T("b", b, 0, 1)

    @staticmethod
    def integer(e, lo, hi):
        return T("i", e, lo, hi)

    @staticmethod
    def finite(cases):
        """cases: list of (cond, value) disjoint+exhaustive; merges equal values"""
        m = {}
        for cnd, v in cases:
            v %= P
            m.setdefault(v, []).append(cnd)
        if not set(m) <= {0, 1}:
            # prune infeasible cases (operands are not independent)
            for v in list(m):
                s = z3.Solver()
                s.set("timeout", 2000)
                s.add(z3.Or(m[v]))
                if s.check() == z3.unsat:
                    del m[v]
        if len(m) == 1:
            return T.const(next(iter(m)))
        if set(m) == {0, 1}:
            return T.boolean(z3.simplify(z3.Or(m[1])))
        cs = [(z3.simplify(z3.Or(c)), v) for v, c in sorted(m.items())]
        t = T("f", cs, min(m), max(m))
        return t

    def cases(self):
        if self.k == "c":
            return [(z3.BoolVal(True), self.v)]
        if self.k == "b":
            return [(z3.Not(self.v), 0), (self.v, 1)]
        if self.k == "f":
            return self.v
        return None

    def as_int(self):
        if self.k == "c":
            return z3.IntVal(self.v)
        if self.k == "b":
            return z3.If(self.v, z3.IntVal(1), z3.IntVal(0))
        if self.k == "f":
            e = z3.IntVal(self.v[-1][1])
            for cnd, v in reversed(self.v[:-1]):
                e = z3.If(cnd, z3.IntVal(v), e)
            return e
        return self.v

    def is_const(self):
        return self.k == "c"


def shift_add_product(sx, x, y, yhi):
    """exact integer product x*y for 0 <= y <= yhi via fresh bits of y"""
    nb = max(1, yhi.bit_length())
    sx.nfresh += 1
    bits = [z3.Bool(f"{getattr(sx, 'prefix', '')}mb{sx.nfresh}_{i}") for i in range(nb)]
    sx.asserts.append(y == z3.Sum([z3.If(b, z3.IntVal(1 << i), z3.IntVal(0)) for i, b in enumerate(bits)]))
    if hasattr(sx, "defs"):
        sx.defs.append(sx.asserts[-1])
    prod = z3.Sum([z3.If(b, x * (1 << i), z3.IntVal(0)) for i, b in enumerate(bits)])
    return prod, bits


class SymX:
    def __init__(self, path, verbose=False, inputs=None, prefix="", share=None, share_vars=None):
        self.ir = path if isinstance(path, dict) else json.load(open(path))
        self.prefix = prefix
        self.share = share          # another SymX whose input variables are reused (self-composition)
        self.share_vars = share_vars or {}   # class -> z3 Int var to use for that (input) class
        self.collapsed = set()      # limb classes eliminated by the range-variable collapse
        self.defs = []              # definitional assertions (total: aux var domains/definitions)
        self.recomp = []            # (term_expr, [(var, offset, bits)]) positional recompositions seen
        self.range_vars = {}        # z3 var name -> (var, bits)
        self.rng_limbs = {}         # z3 var name -> (var, [limb classes, little endian]) of collapsed limbs
        self.rng_bools = {}         # z3 Bool name -> (var, limb class) for 1-limb collapses
        self.elim_classes = set()   # inverse-hint wires eliminated by the is_equal rewrite
        self.hexpr = {}             # z3 expr id -> [(var, offset, bits, is_bool)]: pure positional hint expressions
        self.skolems = []           # (hint positional expr, E): defining equations  E == sum var*2^offset
        self.input_classes = set()
        for n in (inputs or []):
            self.input_classes.update(self.ir["named"][n])
        self.gt = self.ir["gate_types"]
        self.rows = self.ir["rows"]
        self.asserts = []      # z3 Bool
        self.abstracted = 0    # count of UF-mul abstractions used
        self.terms = {}        # class -> T
        self.in_progress = set()
        self.nfresh = 0
        self.freevars = {}     # class -> z3 var
        self.P2 = [z3.Function(f"P2_{i}", *([z3.IntSort()] * 12), z3.IntSort()) for i in range(12)]
        self.P1 = [z3.Function(f"P1_{i}", *([z3.IntSort()] * 12), z3.IntSort()) for i in range(12)]
        self.fmul = z3.Function("fmul", z3.IntSort(), z3.IntSort(), z3.IntSort())
        self.verbose = verbose
        self.stats = dict(eq_hints=0, range_vars=0, bit_vars=0, free_ints=0, nl_exact=0, nl_abs=0, qvars=0, inv_elim=0)
        self._index()
        self._build()

    # ---------------------------------------------------------------- indexing
    def _index(self):
        self.const = {}
        self.definers = {}   # class -> list of ('arith', r, i) | ('bsum', r) | ('p2', r, i) | ('p1', r, i)
        self.uses = {}       # class -> list of (kind, r, i, role)
        self.limb_of = {}    # class -> list of (r, idx)
        self.ops = {}        # (r,i) -> (k0,k1,m0,m1,a,o)
        for r, row in enumerate(self.rows):
            g = self.gt[row["g"]]
            w = row["w"]
            if g.startswith("ConstantGate"):
                for i, k in enumerate(row["k"]):
                    self.const[w[i]] = k
        for cl, v in self.ir.get("extra_constants", []):
            # spare constant slots of other gates (wire == constant), same semantics as a ConstantGate wire
            if cl in self.const and self.const[cl] != v:
                self.asserts.append(z3.BoolVal(False))
            self.const[cl] = v
        usecount = {}
        for r, row in enumerate(self.rows):
            for c in row["w"]:
                usecount[c] = usecount.get(c, 0) + 1
        for c in self.ir["public_inputs"]:
            usecount[c] = usecount.get(c, 0) + 1
        for v in self.ir["named"].values():
            for c in v:
                usecount[c] = usecount.get(c, 0) + 1
        self.usecount = usecount
        for r, row in enumerate(self.rows):
            g = self.gt[row["g"]]
            w = row["w"]
            if g.startswith("ArithmeticGate"):
                k0, k1 = row["k"]
                for i in range(len(w) // 4):
                    m0, m1, a, o = w[4 * i:4 * i + 4]
                    if all(usecount[c] == 1 and c not in self.const for c in (m0, m1, a, o)):
                        continue  # unconnected slot
                    self.ops[(r, i)] = (k0, k1, m0, m1, a, o)
                    self.definers.setdefault(o, []).append(("arith", r, i))
                    for role, c in (("m0", m0), ("m1", m1), ("a", a)):
                        self.uses.setdefault(c, []).append(("arith", r, i, role))
            elif g.startswith("BaseSumGate"):
                self.definers.setdefault(w[0], []).append(("bsum", r))
                for idx, c in enumerate(w[1:]):
                    self.limb_of.setdefault(c, []).append((r, idx))
                    self.uses.setdefault(c, []).append(("limb", r, idx, "limb"))
            elif g.startswith("Poseidon2Gate"):
                for i in range(12):
                    self.definers.setdefault(w[12 + i], []).append(("p2", r, i))
                for i in range(12):
                    self.uses.setdefault(w[i], []).append(("p2", r, i, "in"))
            elif g.startswith("PoseidonGate"):
                for i in range(12):
                    self.definers.setdefault(w[12 + i], []).append(("p1", r, i))
                for i in list(range(12)) + [24]:
                    self.uses.setdefault(w[i], []).append(("p1", r, i, "in"))

    # ---------------------------------------------------------------- terms
    def fresh_int(self, name, lo, hi):
        self.nfresh += 1
        x = z3.Int(f"{self.prefix}{name}_{self.nfresh}")
        self.asserts.append(z3.And(x >= lo, x <= hi))
        self.defs.append(self.asserts[-1])
        return x

    def term(self, c):
        if c in self.terms:
            return self.terms[c]
        if c in self.const:
            t = T.const(self.const[c])
            self.terms[c] = t
            return t
        if c in self.in_progress:
            # dependency cycle: break with a free variable; the cyclic definer becomes an assertion later
            t = self.free(c)
            self.terms[c] = t
            return t
        self.in_progress.add(c)
        defs = sorted(self.definers.get(c, []), key=lambda d: 0 if d[0] == "bsum" else 1)
        if c in self.input_classes:
            defs = []
        t = None
        chosen = None
        for d in defs:
            t = self.eval_def(d)
            if t is not None:
                chosen = d
                break
        if c in self.terms:      # cycle broke here meanwhile: chosen def becomes assertion
            t0 = self.terms[c]
            if t is not None:
                self.asserts.append(t0.as_int() == t.as_int())
            self.in_progress.discard(c)
            self.chosen[c] = None
            return t0
        if t is None:
            t = self.free(c)
        self.terms[c] = t
        self.chosen[c] = chosen
        self.in_progress.discard(c)
        return t

    def free(self, c):
        # limb-typed free var -> Bool
        if c in self.limb_of:
            self.stats["bit_vars"] += 1
            b = z3.Bool(f"{self.prefix}b{c}")
            self.freevars[c] = b
            return T.boolean(b)
        # equality-hint recognition
        t = None if c in self.input_classes else self.try_eq_hint(c)
        if t is not None:
            return t
        self.stats["free_ints"] += 1
        if c in self.share_vars:
            x = self.share_vars[c]
            self.freevars[c] = x
            return T.integer(x, 0, P - 1)
        if c in self.input_classes and self.share is not None:
            x = self.share.freevars[c]
            self.freevars[c] = x
            return T.integer(x, 0, P - 1)
        x = z3.Int(f"{self.prefix}w{c}")
        self.freevars[c] = x
        self.asserts.append(z3.And(x >= 0, x < P))
        self.defs.append(self.asserts[-1])
        return T.integer(x, 0, P - 1)

    def try_eq_hint(self, e):
        """is_equal idiom: ops  z = e*d (z == const 0)  and  dn = d*inv (inv used once), ec = dn - (1-e) == 0.
        Hypothesis e := (d == 0); verified by a local z3 query over the exact semantics."""
        us = self.uses.get(e, [])
        cand = None
        for (kind, r, i, role) in us:
            if kind != "arith" or role not in ("m0", "m1"):
                continue
            k0, k1, m0, m1, a, o = self.ops[(r, i)]
            if self.const.get(o) != 0 or k0 % P == 0:
                continue
            if k1 % P != 0 and self.const.get(a) != 0:
                continue
            d = m1 if m0 == e else m0
            if d == e:
                continue
            cand = d
            break
        if cand is None:
            return None
        d = cand
        # find dn = k*(d*inv) with inv free, used once
        for (kind, r, i, role) in self.uses.get(d, []):
            if kind != "arith" or role not in ("m0", "m1"):
                continue
            k0, k1, m0, m1, a, dn = self.ops[(r, i)]
            inv = m1 if m0 == d else m0
            if inv in (e, d) or inv in self.const or self.definers.get(inv) or self.usecount.get(inv, 0) != 1:
                continue
            if k1 % P != 0 and self.const.get(a) != 0:
                continue
            if dn in self.const or len(self.definers.get(dn, [])) != 1:
                continue
            # dn used exactly once: ec = c0*dn... - ... with out const 0, linear in e
            dn_uses = self.uses.get(dn, [])
            if len(dn_uses) != 1 or self.usecount.get(dn, 0) != 2:
                continue
            kind2, r2, i2, role2 = dn_uses[0]
            if kind2 != "arith":
                continue
            k0b, k1b, m0b, m1b, ab, ob = self.ops[(r2, i2)]
            if self.const.get(ob) != 0:
                continue
            # semantic local check with z3 over exact integer semantics restricted to what matters:
            # we need: forall d,e.  (e*d == 0 and exists inv,dn: dn == k*d*inv and lin(dn, ne(e)) == 0)  <=>  e == [d == 0]
            # Evaluate symbolically using a tiny recursive evaluator on the involved ops with e,d,dn as unknowns.
            ok = self._verify_eq_hint(e, d, inv, dn, (r, i), (r2, i2))
            if ok:
                td = self.term(d)
                self.stats["eq_hints"] += 1
                self.consumed_ops.update({(r, i), (r2, i2)})
                self.elim_classes.update({inv, dn})   # existentially eliminated hint wires (left to the real generators on replay)
                # the zero-product op
                for (kind3, r3, i3, role3) in us:
                    if kind3 == "arith" and self.const.get(self.ops[(r3, i3)][5]) == 0:
                        kk = self.ops[(r3, i3)]
                        if set((kk[2], kk[3])) == {e, d}:
                            self.consumed_ops.add((r3, i3))
                if td.k == "c":
                    return T.const(1 if td.v == 0 else 0)
                return T.boolean(td.as_int() == 0)
        return None

    def _verify_eq_hint(self, e, d, inv, dn, op_dn, op_ec):
        # exact check over a small prime field stand-in is not sound in general; instead do structural check:
        # op_ec must be: 0 == c0*(X*Y) + c1*A where the expression is  alpha*dn + beta*(1 - e) style.
        k0, k1, m0, m1, a, o = self.ops[op_ec]
        kd0, kd1, md0, md1, ad, od = self.ops[op_dn]
        # find "ne" class: the operand of op_ec other than dn (and constants)
        operands = [(m0, "m"), (m1, "m"), (a, "a")]
        others = [c for c, _ in operands if c != dn and c not in self.const]
        if len(others) != 1:
            return False
        ne = others[0]
        # ne must be defined as 1 - e : an arith op with out ne, linear in e
        nd = self.definers.get(ne, [])
        if len(nd) != 1 or nd[0][0] != "arith":
            return False
        kn0, kn1, mn0, mn1, an, on = self.ops[(nd[0][1], nd[0][2])]
        # compute ne = alpha*e + beta symbolically (mod P) if linear in e with constants
        def lin_in(e_cls, k0, k1, m0, m1, a):
            # returns (alpha, beta) with value = alpha*e + beta, or None
            alpha = beta = 0
            cm0, cm1, ca = self.const.get(m0), self.const.get(m1), self.const.get(a)
            if m0 == e_cls and cm1 is not None:
                alpha += k0 * cm1
            elif m1 == e_cls and cm0 is not None:
                alpha += k0 * cm0
            elif cm0 is not None and cm1 is not None:
                beta += k0 * cm0 * cm1
            elif k0 % P == 0:
                pass
            else:
                return None
            if a == e_cls:
                alpha += k1
            elif ca is not None:
                beta += k1 * ca
            elif k1 % P == 0:
                pass
            else:
                return None
            return alpha % P, beta % P
        l = lin_in(e, kn0, kn1, mn0, mn1, an)
        if l is None:
            return False
        alpha, beta = l
        # op_ec: 0 = k0*m0*m1 + k1*a in terms of dn and ne with constants: value = gamma*dn + delta*ne + eps
        def lin2(k0, k1, m0, m1, a):
            coef = {dn: 0, ne: 0}
            eps = 0
            cm0, cm1, ca = self.const.get(m0), self.const.get(m1), self.const.get(a)
            if k0 % P != 0:
                if m0 in coef and cm1 is not None:
                    coef[m0] += k0 * cm1
                elif m1 in coef and cm0 is not None:
                    coef[m1] += k0 * cm0
                elif cm0 is not None and cm1 is not None:
                    eps += k0 * cm0 * cm1
                else:
                    return None
            if k1 % P != 0:
                if a in coef:
                    coef[a] += k1
                elif ca is not None:
                    eps += k1 * ca
                else:
                    return None
            return coef[dn] % P, coef[ne] % P, eps % P
        l2 = lin2(k0, k1, m0, m1, a)
        if l2 is None:
            return False
        gamma, delta, eps = l2
        if gamma == 0:
            return False
        # dn = kd0 * d * inv (+ kd1*ad with ad const 0 or kd1 == 0)
        if kd0 % P == 0:
            return False
        # Semantics: exists inv: gamma*kd0*d*inv + delta*(alpha*e+beta) + eps == 0
        #   d != 0  -> always satisfiable (free inv)          => with e*d==0: e == 0
        #   d == 0  -> delta*(alpha*e+beta)+eps == 0          => e == e1 := -(eps+delta*beta)/(delta*alpha)
        da = (delta * alpha) % P
        if da == 0:
            return False
        e1 = (-(eps + delta * beta) * pow(da, P - 2, P)) % P
        return e1 == 1

    # ---------------------------------------------------------------- definers
    def eval_def(self, d):
        kind = d[0]
        if kind == "arith":
            if (d[1], d[2]) in self.consumed_ops:
                return None
            return self.eval_arith(*self.ops[(d[1], d[2])])
        if kind == "bsum":
            return self.eval_bsum(d[1])
        if kind in ("p2", "p1"):
            return self.eval_pos(kind, d[1], d[2])
        raise Exception(kind)

    def eval_pos(self, kind, r, i):
        key = (kind, r)
        if key not in self.poscache:
            w = self.rows[r]["w"]
            ins = [self.term(c).as_int() for c in w[0:12]]
            if kind == "p1":
                sw = self.term(w[24])
                if sw.k == "c":
                    if sw.v == 1:
                        ins = [ins[(j + 4) % 8] if j < 8 else ins[j] for j in range(12)]
                    elif sw.v != 0:
                        self.asserts.append(z3.BoolVal(False))
                else:
                    swb = sw.v if sw.k == "b" else (sw.v == 1)
                    if sw.k == "i":
                        self.asserts.append(z3.Or(sw.v == 0, sw.v == 1))
                    ins = [z3.If(swb, ins[(j + 4) % 8], ins[j]) if j < 8 else ins[j] for j in range(12)]
            F = self.P2 if kind == "p2" else self.P1
            outs = []
            for j in range(12):
                o = F[j](*ins)
                outs.append(o)
            self.poscache[key] = outs
            self.pos_apps.append((kind, ins, outs))
        o = self.poscache[key][i]
        self.asserts.append(z3.And(o >= 0, o < P))
        self.defs.append(self.asserts[-1])      # codomain axiom of the uninterpreted permutation, not a circuit check
        return T.integer(o, 0, P - 1)

    def eval_bsum(self, r):
        w = self.rows[r]["w"]
        limbs = w[1:]
        # range-variable shortcut: all non-constant limbs are free, used only here, and form a prefix
        free_prefix = 0
        simple = True
        for idx, c in enumerate(limbs):
            if c in self.const:
                if self.const[c] != 0:
                    simple = False
                continue
            if self.definers.get(c) or self.usecount.get(c, 0) != 1 or len(self.limb_of.get(c, [])) != 1:
                simple = False
            if idx != free_prefix:
                simple = False
            free_prefix = idx + 1
        if simple:
            for c in limbs:
                if c in self.const:
                    continue            # constant limbs keep their constant term
                if c not in self.terms:
                    self.collapsed.add(c)
                self.terms.setdefault(c, T.boolean(z3.BoolVal(False)))  # not referenced elsewhere
            if free_prefix == 0:
                return T.const(0)
            self.stats["range_vars"] += 1
            if free_prefix == 1:
                # a single free limb is just a Boolean (keeps products with it out of the UF abstraction)
                self.nfresh += 1
                bvar = z3.Bool(f"{self.prefix}rb{r}_{self.nfresh}")
                self.rng_bools[str(bvar)] = (bvar, limbs[0])
                self.hexpr[bvar.get_id()] = [(bvar, 0, 1, True)]
                return T.boolean(bvar)
            x = self.fresh_int(f"rng{r}", 0, (1 << free_prefix) - 1)
            self.range_vars[str(x)] = (x, free_prefix)
            self.rng_limbs[str(x)] = (x, [c for c in limbs[:free_prefix]])
            self.hexpr[x.get_id()] = [(x, 0, free_prefix, False)]
            return T.integer(x, 0, (1 << free_prefix) - 1)
        tot = z3.IntVal(0)
        lo = hi = 0
        for idx, c in enumerate(limbs):
            t = self.term(c)
            if t.k == "c":
                if t.v not in (0, 1):
                    self.asserts.append(z3.BoolVal(False))
                tot = tot + t.v * (1 << idx)
                lo += t.v << idx
                hi += t.v << idx
            elif t.k == "b":
                tot = tot + z3.If(t.v, z3.IntVal(1 << idx), z3.IntVal(0))
                hi += 1 << idx
            else:
                self.asserts.append(z3.Or(t.v == 0, t.v == 1))
                tot = tot + t.v * (1 << idx)
                hi += 1 << idx
        assert hi < P
        e = z3.simplify(tot)
        he, pure = [], True
        for idx, c in enumerate(limbs):
            t = self.terms.get(c)
            if t is None or t.k == "c":
                if t is not None and t.v != 0:
                    pure = False
                continue
            fv = self.freevars.get(c)
            if t.k == "b" and fv is not None and z3.is_bool(fv) and t.v.eq(fv):
                he.append((fv, idx, 1, True))
            else:
                pure = False
        if pure and he:
            self.hexpr[e.get_id()] = he
        return T.integer(e, lo, hi)

    def mulmod_terms(self, x, y):
        """product of two typed terms as (z3 int expr or T, lo, hi) before scaling"""
        if x.k == "c" and y.k == "c":
            return T.const(x.v * y.v)
        if x.k == "c":
            x, y = y, x
        if y.k == "c":
            return ("scale", x, y.v)
        if x.k == "b" and y.k == "b":
            return T.boolean(z3.And(x.v, y.v))
        if x.cases() is not None and y.cases() is not None and len(x.cases()) * len(y.cases()) <= 64:
            return T.finite([(z3.And(c1, c2), v1 * v2) for c1, v1 in x.cases() for c2, v2 in y.cases()])
        if x.k == "f" or y.k == "f":
            if y.k == "f":
                x, y = y, x
            # x finite, y int: nested ite over scaled copies (exact mod p)
            def scaled(v):
                if v == 0:
                    return z3.IntVal(0)
                S = v * y.as_int()
                lo, hi = v * y.lo, v * y.hi
                qlo, qhi = lo // P, hi // P
                if qhi - qlo > 3:
                    return None
                e = S - qhi * P
                for q in range(qhi - 1, qlo - 1, -1):
                    e = z3.If(S < (q + 1) * P, S - q * P, e)
                return e
            es = [(c, scaled(v)) for c, v in x.v]
            if all(e is not None for _, e in es):
                e = es[-1][1]
                for c, ee in reversed(es[:-1]):
                    e = z3.If(c, ee, e)
                return T.integer(e, 0, P - 1)
        if x.k == "b" or y.k == "b":
            if y.k == "b":
                x, y = y, x
            # x bool, y int
            return T.integer(z3.If(x.v, y.v, z3.IntVal(0)), min(0, y.lo), max(0, y.hi))
        # int x int
        if x.lo >= 0 and y.lo >= 0 and min(x.hi, y.hi) < (1 << 20):
            # exact shift-and-add over the bits of the smaller operand (keeps the problem linear)
            if x.hi < y.hi:
                x, y = y, x
            self.stats["nl_exact"] += 1
            prod, _ = shift_add_product(self, x.as_int(), y.as_int(), y.hi)
            lo, hi = x.lo * y.lo, x.hi * y.hi
            if hi < P:
                return T.integer(prod, lo, hi)
            qhi = hi // P
            if qhi <= 2:
                e = prod - qhi * P
                for q in range(qhi - 1, -1, -1):
                    e = z3.If(prod < (q + 1) * P, prod - q * P, e)
                return T.integer(e, 0, P - 1)
            out = self.fresh_int("o", 0, P - 1)
            q = self.fresh_int("q", 0, qhi)
            self.asserts.append(out == prod - q * P)
            self.defs.append(self.asserts[-1])
            return T.integer(out, 0, P - 1)
        self.stats["nl_abs"] += 1
        self.abstracted += 1
        a, b = x.as_int(), y.as_int()
        t = self.fmul(a, b)
        self.asserts.append(z3.And(t >= 0, t < P))
        self.asserts.append(z3.Implies(a == 0, t == 0))
        self.asserts.append(z3.Implies(b == 0, t == 0))
        self.asserts.append(z3.Implies(t == 0, z3.Or(a == 0, b == 0)))
        self.asserts.append(z3.Implies(a == 1, t == b))
        self.asserts.append(z3.Implies(b == 1, t == a))
        return T.integer(t, 0, P - 1)

    def eval_arith(self, k0, k1, m0, m1, a, o):
        parts = []  # (signed coef, T)
        const = 0
        allbool = True
        if k0 % P != 0:
            x, y = self.term(m0), self.term(m1)
            self._cur = (m0, m1, a, o)
            pr = self.mulmod_terms(x, y)
            if isinstance(pr, tuple):
                _, tx, c = pr
                parts.append((signed(k0 * c), tx))
            elif pr.k == "c":
                const += k0 * pr.v
            else:
                parts.append((signed(k0), pr))
        if k1 % P != 0:
            ta = self.term(a)
            if ta.k == "c":
                const += k1 * ta.v
            else:
                parts.append((signed(k1), ta))
        const = signed(const)
        parts = [(cf, t) for cf, t in parts if cf != 0]
        if not parts:
            return T.const(const)
        # all-finite operands: enumerate
        cs = [t.cases() for _, t in parts]
        if all(c is not None for c in cs):
            size = 1
            for c in cs:
                size *= len(c)
            if size <= 64:
                out = []
                for combo in itertools.product(*cs):
                    cond = z3.And([c for c, _ in combo]) if len(combo) > 1 else combo[0][0]
                    val = (const + sum(cf * v for (cf, _), (_, v) in zip(parts, combo))) % P
                    out.append((cond, val))
                return T.finite(out)
        S = z3.IntVal(const)
        lo = hi = const
        for cf, t in parts:
            S = S + cf * t.as_int()
            tl, th = (t.lo, t.hi)
            lo += min(cf * tl, cf * th)
            hi += max(cf * tl, cf * th)
        qlo, qhi = lo // P, hi // P
        # positional recomposition of pure hint expressions (e.g. lo + 2^32*hi of split_low_high)
        he = None
        if const == 0 and all(cf > 0 and (cf & (cf - 1)) == 0 for cf, _ in parts):
            he = []
            for cf, t in parts:
                key = t.v.get_id() if t.k in ("i", "b") else None
                sub = self.hexpr.get(key)
                if sub is None:
                    he = None
                    break
                he += [(v, off + cf.bit_length() - 1, bits, isb) for (v, off, bits, isb) in sub]
        if qlo == qhi:
            e = S - qlo * P
            if he:
                self.hexpr[e.get_id()] = he
            return T.integer(e, lo - qlo * P, hi - qlo * P)
        if qhi - qlo <= 2:
            e = S - qhi * P
            for q in range(qhi - 1, qlo - 1, -1):
                e = z3.If(S < (q + 1) * P, S - q * P, e)
            if he:
                self.hexpr[e.get_id()] = he
            return T.integer(e, 0, P - 1)
        self.stats["qvars"] += 1
        out = self.fresh_int("o", 0, P - 1)
        q = self.fresh_int("q", qlo, qhi)
        self.asserts.append(out == S - q * P)
        self.defs.append(self.asserts[-1])
        return T.integer(out, 0, P - 1)

    # ---------------------------------------------------------------- build
    def _build(self):
        self.chosen = {}
        self.consumed_ops = set()
        self.poscache = {}
        self.pos_apps = []
        sys.setrecursionlimit(100000)
        # evaluate every class that appears
        classes = set()
        for row in self.rows:
            g = self.gt[row["g"]]
            if g.startswith("PublicInputGate") or g.startswith("NoopGate"):
                continue
            classes.update(row["w"] if not g.startswith("Poseidon") else row["w"][:25])
        for v in self.ir["named"].values():
            classes.update(v)
        classes.update(self.ir["public_inputs"])
        for c in sorted(classes):
            if c in self.usecount and c not in self.const and (not self.definers.get(c) or c in self.input_classes):
                self.term(c)      # free classes first: lets hint idioms consume their ops
        for c in sorted(classes):
            if c in self.usecount:
                self.term(c)
        # assertions from non-chosen definers and type constraints
        for c, defs in self.definers.items():
            if c not in self.terms:
                continue
            t = self.terms[c]
            for d in defs:
                if d == self.chosen.get(c):
                    continue
                if d[0] == "arith" and (d[1], d[2]) in self.consumed_ops:
                    continue
                t2 = self.eval_def(d)
                if t2 is None:
                    continue
                if t.k == "c" and t2.k == "c":
                    if t.v != t2.v:
                        self.asserts.append(z3.BoolVal(False))
                    continue
                self._note_skolem(t, t2)
                if t.k == "b" and t2.k == "b":
                    self.asserts.append(t.v == t2.v)
                elif t.k == "c" and t2.k == "b":
                    self.asserts.append(t2.v if t.v == 1 else (z3.Not(t2.v) if t.v == 0 else z3.BoolVal(False)))
                elif t.k == "b" and t2.k == "c":
                    self.asserts.append(t.v if t2.v == 1 else (z3.Not(t.v) if t2.v == 0 else z3.BoolVal(False)))
                else:
                    self.asserts.append(t.as_int() == t2.as_int())
        # limb typing for defined (non-free) classes
        for c, where in self.limb_of.items():
            t = self.terms.get(c)
            if t is None:
                continue
            if t.k == "c":
                if t.v not in (0, 1):
                    self.asserts.append(z3.BoolVal(False))
            elif t.k == "i":
                self.asserts.append(z3.Or(t.v == 0, t.v == 1))

    def _hkey(self, t):
        return t.v.get_id() if t.k in ("i", "b") else None

    def _note_skolem(self, t, t2):
        """t and t2 are two definitions of one wire class; if one is a pure positional hint expression,
        the other is the value the hints must decompose (defining equation for Skolemisation)"""
        h2, h1 = self.hexpr.get(self._hkey(t2)), self.hexpr.get(self._hkey(t))
        if h2 is not None:
            # (also when both are hint expressions: the chosen definition plays the role of the value)
            self.skolems.append((h2, t.as_int()))
        elif h1 is not None:
            self.skolems.append((h1, t2.as_int()))

    def skolem_facts(self):
        """Existential hint wires are pinned to THE digits of the value they decompose (what plonky2's
        split/range generators compute), stated without div/mod: the integer equation
        E == sum(var * 2^offset) with every var inside its digit range has exactly one solution when
        0 <= E < 2^width, so adding it is a total definition provided the 'fits' obligation holds.
        Returns (facts, fits_obligations, vars_done)."""
        facts, fits, done = [], [], set()
        self.skolem_groups = []     # per group: its own facts (so a group's fit can be proved from the OTHER groups)
        for he, E in self.skolems:
            if any(v.get_id() in done for (v, _, _, _) in he):
                continue
            width = max(off + bits for (_, off, bits, _) in he)
            terms, own = [], []
            for (v, off, bits, isb) in he:
                done.add(v.get_id())
                if isb:
                    terms.append(z3.If(v, z3.IntVal(1 << off), z3.IntVal(0)))
                else:
                    terms.append(v * (1 << off))
                    own.append(z3.And(v >= 0, v < (1 << bits)))
            covered = sum(((1 << bits) - 1) << off for (_, off, bits, _) in he)
            own.append(E == z3.Sum(terms))
            facts += own
            fit = z3.And(E >= 0, E < (1 << width)) if covered == (1 << width) - 1 else None
            fits.append(fit)
            self.skolem_groups.append((own, fit))
        return facts, fits, done

    def named(self, n):
        return [self.terms[c] for c in self.ir["named"][n]]

    def named_int(self, n):
        return [self.terms[c].as_int() for c in self.ir["named"][n]]

    def pis(self):
        return [self.terms[c] for c in self.ir["public_inputs"]]


