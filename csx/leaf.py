"""Leaf circuit properties C01-C04 (+ C05/C27 circuit halves) over the IR of the real leaf circuit."""
import multiprocessing as mp
import sys
import time

import z3

import symx
from csxlib import *
from symx import P

B32 = 2 ** 32
# documented public-input layout of the leaf statement
PI = dict(asset=0, out1=1, out2=2, fee=3, nullifier=(4, 8), exit1=(8, 12), exit2=(12, 16), block_hash=(16, 20), block_number=20)


class Leaf:
    def __init__(self, ir):
        self.ir = ir
        t0 = time.time()
        self.sx = symx.SymX(ir)
        self.build_s = time.time() - t0
        sx = self.sx
        self.I = sx.named_int
        pis = [t.as_int() for t in sx.pis()]
        assert len(pis) == 21, "leaf circuit must expose 21 public inputs"
        self.pis = pis
        self.asset, self.o1, self.o2, self.fee = pis[0], pis[1], pis[2], pis[3]
        self.nullifier = pis[4:8]
        self.exit1, self.exit2 = pis[8:12], pis[12:16]
        self.bh = pis[16:20]
        self.bn = pis[20]
        self.inp, = self.I("input_amount")
        self.tc = self.I("transfer_count")
        self.to = self.I("to_account")
        self.depth, = self.I("depth")
        self.pos = self.I("positions")
        self.root = self.I("root_hash")
        self.sp = Sponge(sx)
        self.spec_dummy = z3.And(eq4(self.bh, [0] * 4), self.o1 == 0, self.o2 == 0)

    def session(self, label, timeout_s=120):
        return Session(label, self.sx.asserts, timeout_s=timeout_s)

    def stats(self):
        sx = self.sx
        return dict(rows=len(sx.rows), classes=len(sx.terms), assertions=len(sx.asserts),
                    abstracted_products=sx.abstracted, **sx.stats, encode_s=round(self.build_s, 2))


def c01(L, tier):
    s = L.session("C01")
    s.sat("vacuity: leaf constraints satisfiable")
    s.sat("vacuity: non-dummy statement reachable", z3.Not(L.spec_dummy))
    show = dict(asset=L.asset, inp=L.inp, o1=L.o1, o2=L.o2, fee=L.fee, bn=L.bn)
    s.holds("asset_id < 2^32", L.asset < B32, show)
    s.holds("input_amount < 2^32", L.inp < B32, show)
    s.holds("out1 < 2^32", L.o1 < B32, show)
    s.holds("out2 < 2^32", L.o2 < B32, show)
    s.holds("block_number < 2^32", L.bn < B32, show)
    s.holds("transfer_count limb0 < 2^32", L.tc[0] < B32, show)
    s.holds("transfer_count limb1 < 2^32", L.tc[1] < B32, show)
    s.holds("fee <= 10000", L.fee <= 10000, show)
    # integer fee rule with an independently built exact product (shift-and-add over spec bits)
    class Tmp:
        pass
    tmp = Tmp(); tmp.nfresh = 0; tmp.asserts = []; tmp.prefix = "spec_"
    cf = z3.Int("spec_cfee")
    prod, _ = symx.shift_add_product(tmp, L.inp, cf, 10000)
    s2 = L.session("C01")
    s2.add(cf == 10000 - L.fee, L.fee <= 10000, cf >= 0, *tmp.asserts)
    s2.holds("(out1+out2)*10000 <= in*(10000-fee) over Z", (L.o1 + L.o2) * 10000 <= prod, show)
    # the same facts must hold for dummies too (C04 last sentence): no ¬dummy premise was used above;
    # additionally show the dummy region is non-empty so the claim is not vacuous there
    s.sat("vacuity: dummy statement reachable", L.spec_dummy)
    return [s, s2]


def c02(L, tier):
    s = L.session("C02")
    s.sat("vacuity: non-dummy statement reachable", z3.Not(L.spec_dummy))
    salt_n = L.ir["consts"]["salt_nullifier"]
    salt_w = L.ir["consts"]["salt_wormhole"]
    secret = L.I("null_secret")
    spec_null = L.sp.hash(L.sp.hash(salt_n + secret + L.tc))
    spec_addr = L.sp.hash(L.sp.hash(salt_w + secret))
    s.holds("non-dummy => nullifier = H(H(salt||s||c))", z3.Implies(z3.Not(L.spec_dummy), eq4(L.nullifier, spec_null)))
    s.holds("recipient in proven leaf = H(H(salt||s)) (same s)", eq4(L.to, spec_addr))
    s.holds("nullifier count = leaf transfer count", z3.And([a == b for a, b in zip(L.I("null_tc"), L.tc)]))
    s.holds("address secret = nullifier secret", eq4(L.I("ua_secret"), secret))
    s.holds("address sub-circuit account = leaf recipient", eq4(L.I("ua_account"), L.to))
    return [s]


def _ins(sibs, p, cur):
    out = []
    for slot in range(4):
        for e in range(4):
            out.append(z3.If(p == slot, cur[e],
                             z3.If(p > slot, sibs[min(slot, 2)][e], sibs[max(slot - 1, 0)][e])))
    return out


def find_cuts(L):
    """Classes carrying the running Merkle hash after each level (cut points), found by value in the
    honest depth-16 witness (native fold from the emitter) and confirmed structurally: the class is
    the output of an arithmetic op with the level's Poseidon2 output as multiplicand (the select)."""
    sx, ir = L.sx, L.ir
    wits = [w for w in ir["witnesses"] if w["aux"].get("depth") == 16 and not w["aux"].get("dummy")]
    if not wits:
        return None, "no depth-16 honest witness"
    w = wits[0]
    vals = {int(k): v for k, v in w["vals"].items()}
    fold = w["aux"]["fold"]
    byval = {}
    for c, v in vals.items():
        byval.setdefault(v, []).append(c)
    others = [(x["aux"], {int(k): v for k, v in x["vals"].items()}) for x in ir["witnesses"]
              if x is not w and not x["aux"].get("dummy")]
    p2out = set()
    for r, row in enumerate(sx.rows):
        if sx.gt[row["g"]].startswith("Poseidon2Gate"):
            p2out.update(row["w"][12:24])
    cuts = []
    # level 0: the leaf hash = Poseidon2 output classes
    c0 = []
    for e in range(4):
        cand = [c for c in byval.get(fold[0][e], []) if c in p2out]
        if len(cand) != 1:
            return None, f"leaf-hash cut element {e}: {len(cand)} candidates"
        c0.append(cand[0])
    cuts.append(c0)
    for l in range(1, 17):
        cl = []
        for e in range(4):
            parents = [c for c in byval.get(fold[l][e], []) if c in p2out]
            cand = []
            for c in byval.get(fold[l][e], []):
                if c in p2out:
                    continue
                for d in sx.definers.get(c, []):
                    if d[0] == "arith":
                        k0, k1, m0, m1, a, o = sx.ops[(d[1], d[2])]
                        if m0 in parents or m1 in parents:
                            cand.append(c)
            cand = sorted(set(cand))
            # must also carry the running hash in every other honest witness
            cand = [c for c in cand if all(v.get(c) == aux["fold"][min(l, aux["depth"])][e] for aux, v in others)]
            if len(cand) != 1:
                return None, f"level {l} element {e}: {len(cand)} candidates"
            cl.append(cand[0])
        cuts.append(cl)
    return cuts, "ok"


_G = {}


def _level_lemma(l):
    L, cuts, timeout_s = _G["L"], _G["cuts"], _G["timeout_s"]
    sx = L.sx
    T = lambda cl: [sx.terms[c].as_int() for c in cl]
    curT = T(cuts[l])
    X = [z3.Int(f"cut_{l}_{e}") for e in range(4)]
    nxtT = [z3.substitute(t, *[(curT[e], X[e]) for e in range(4)]) for t in T(cuts[l + 1])]
    sibs = [L.I(f"sib_{l}_{k}") for k in range(3)]
    sp = Sponge(sx)
    step = sp.hash(_ins(sibs, L.pos[l], X))
    goal = z3.Implies(z3.And([z3.And(x >= 0, x < P) for x in X]),
                      eq4(nxtT, [z3.If(L.depth > l, step[e], X[e]) for e in range(4)]))
    s = Session("C03", sx.asserts, timeout_s=timeout_s, verbose=False)
    r = s.holds(f"level {l}: cur' = depth>{l} ? H(insert(sibs,pos,cur)) : cur  (cut generalised)", goal)
    return (r.name, r.kind, r.verdict, r.secs)


def c03(L, tier, jobs=16):
    timeout_s = 300 if tier == "quick" else 1800
    s = L.session("C03", timeout_s)
    s.sat("vacuity: non-dummy statement reachable", z3.Not(L.spec_dummy))
    nd = z3.Not(L.spec_dummy)
    hdr = L.I("parent_hash") + L.I("block_number") + L.I("state_root") + L.I("extrinsics_root") + L.I("zk_tree_root") + L.I("digest")
    s.holds("non-dummy => block_hash = H(parent,number,state,extrinsics,tree_root,digest)",
            z3.Implies(nd, eq4(L.bh, L.sp.hash(hdr))))
    s.holds("public block number is the preimage's number", L.bn == L.I("block_number")[0])
    s.holds("non-dummy => header tree root = Merkle root", z3.Implies(nd, eq4(L.I("zk_tree_root"), L.root)))
    s.holds("depth <= 16", L.depth <= 16)
    s.holds("every position in 0..3", z3.And([z3.And(p >= 0, p <= 3) for p in L.pos]))
    # --- shallow paths asked directly (no cut points, hence independent of how the walk is written): for depth d in 0..2
    # a non-dummy statement's root is the d-level fold of the leaf hash
    leafh0 = L.sp.hash(L.to + L.tc + [L.asset, L.inp])
    for d in ((0, 1, 2) if tier == "quick" else (0, 1, 2, 3)):
        F = leafh0
        for l in range(d):
            F = L.sp.hash(_ins([L.I(f"sib_{l}_{k}") for k in range(3)], L.pos[l], F))
        s.holds(f"direct: non-dummy and depth = {d} => root_hash = {d}-level fold of H(recipient||count||asset||input)",
                z3.Implies(z3.And(nd, L.depth == d), eq4(L.root, F)))
    # --- Merkle fold via per-level lemmas at cut points
    cuts, why = find_cuts(L)
    if cuts is None:
        s.results.append(Result("cut-point discovery: " + why, "holds", "UNKNOWN", 0.0))
        return [s]
    sx = L.sx
    T = lambda cl: [sx.terms[c].as_int() for c in cl]
    leafh = L.sp.hash(L.to + L.tc + [L.asset, L.inp])
    s.holds("cut 0 = H(recipient||count||asset||input)", eq4(T(cuts[0]), leafh))
    _G.update(L=L, cuts=cuts, timeout_s=timeout_s)
    with mp.get_context("fork").Pool(min(jobs, 16)) as pool:
        for (name, kind, verdict, secs) in pool.imap(_level_lemma, list(range(16))):
            r = Result(name, kind, verdict, secs)
            s._log(r)
    s.holds("non-dummy => root_hash = cut 16", z3.Implies(nd, eq4(L.root, T(cuts[16]))))
    # --- glue: the proven lemmas (instantiated over fresh cut constants, one query per depth d in 0..16,
    # depth <= 16 being proved above) imply the nested statement  root = fold_d(leaf hash)
    g = Session("C03", [], timeout_s=timeout_s)
    sp = Sponge(sx)
    c = [[z3.Int(f"g_cut_{l}_{e}") for e in range(4)] for l in range(17)]
    pos = [z3.Int(f"g_pos_{l}") for l in range(16)]
    sib = [[[z3.Int(f"g_sib_{l}_{k}_{e}") for e in range(4)] for k in range(3)] for l in range(16)]
    leafv = [z3.Int(f"g_leaf_{e}") for e in range(4)]
    root = [z3.Int(f"g_root_{e}") for e in range(4)]
    t0 = time.time()
    bad = 0
    for d in range(17):
        sol = z3.Solver()
        sol.set("timeout", int(timeout_s * 1000))
        sol.add(eq4(c[0], leafv))
        sol.add([z3.And(x >= 0, x < P) for cl in c for x in cl])
        for l in range(16):
            sol.add(eq4(c[l + 1], sp.hash(_ins(sib[l], pos[l], c[l])) if l < d else c[l]))
        sol.add(eq4(root, c[16]))
        F = leafv
        for l in range(d):
            F = sp.hash(_ins(sib[l], pos[l], F))
        sol.add(z3.Not(eq4(root, F)))
        sol.add(sp.axioms())
        if sol.check() != z3.unsat:
            bad += 1
    g._log(Result("glue: level lemmas + root binding => non-dummy root = d-level fold of the leaf hash, for each depth d in 0..16 (17 queries)",
                  "holds", "HOLDS" if bad == 0 else "UNKNOWN", time.time() - t0))
    return [s, g]


def c04(L, tier):
    s = L.session("C04")
    nd = L.sx.named("is_not_dummy")[0]
    ndb = nd.v if nd.k == "b" else (nd.as_int() == 1)
    if nd.k not in ("b", "c"):
        s.holds("dummy flag is boolean", z3.Or(nd.as_int() == 0, nd.as_int() == 1))
    s.sat("vacuity: zero block hash with non-zero output is a statement the constraints can reach",
          eq4(L.bh, [0] * 4), L.o1 > 0)
    s.sat("vacuity: dummy reachable", L.spec_dummy)
    s.holds("is_not_dummy <=> not(block_hash=0 and out1=0 and out2=0) (no witness freedom)", ndb == z3.Not(L.spec_dummy))
    salt_n = L.ir["consts"]["salt_nullifier"]
    spec_null = L.sp.hash(L.sp.hash(salt_n + L.I("null_secret") + L.tc))
    hdr = L.I("parent_hash") + L.I("block_number") + L.I("state_root") + L.I("extrinsics_root") + L.I("zk_tree_root") + L.I("digest")
    bhspec = L.sp.hash(hdr)
    cases = [("block_hash != 0", z3.Not(eq4(L.bh, [0] * 4))), ("out1 != 0", L.o1 != 0), ("out2 != 0", L.o2 != 0)]
    for nm, cond in cases:
        s.holds(f"{nm} => nullifier binding enforced", z3.Implies(cond, eq4(L.nullifier, spec_null)))
        s.holds(f"{nm} => header binding enforced", z3.Implies(cond, eq4(L.bh, bhspec)))
        s.holds(f"{nm} => tree-root binding enforced", z3.Implies(cond, eq4(L.I("zk_tree_root"), L.root)))
    # range and fee constraints hold for dummies too
    s.holds("dummy => ranges and fee bound still hold",
            z3.Implies(L.spec_dummy, z3.And(L.asset < B32, L.inp < B32, L.bn < B32, L.fee <= 10000, L.tc[0] < B32, L.tc[1] < B32)))
    return [s]


def c05(L, tier):
    """C05 (constraint-system part): public-input order and completeness of the leaf constraint system"""
    s = c05_structure(L, tier)[0]
    ir, sx = L.ir, L.sx
    salt_n = ir["consts"]["salt_nullifier"]; salt_w = ir["consts"]["salt_wormhole"]
    secret = L.I("null_secret")
    cuts, why = find_cuts(L)
    if cuts is None:
        s.results.append(Result("cut-point discovery: " + why, "holds", "UNKNOWN", 0.0))
        return [s]
    T = lambda cl: [sx.terms[c].as_int() for c in cl]
    nd = z3.Not(L.spec_dummy)
    hdr = L.I("parent_hash") + L.I("block_number") + L.I("state_root") + L.I("extrinsics_root") + L.I("zk_tree_root") + L.I("digest")

    class Tmp:
        pass
    tmp = Tmp(); tmp.nfresh = 0; tmp.asserts = []; tmp.prefix = "spec_"
    cf = z3.Int("spec_cfee")
    prod, _ = symx.shift_add_product(tmp, L.inp, cf, 10000)
    accept = z3.And(
        L.asset < B32, L.inp < B32, L.o1 < B32, L.o2 < B32, L.bn < B32, L.tc[0] < B32, L.tc[1] < B32, L.fee <= 10000,
        cf == 10000 - L.fee, *tmp.asserts, (L.o1 + L.o2) * 10000 <= prod,
        L.depth <= 16, z3.And([z3.And(p >= 0, p <= 3) for p in L.pos]),
        eq4(L.to, L.sp.hash(L.sp.hash(salt_w + secret))),
        eq4(L.I("ua_secret"), secret), eq4(L.I("ua_account"), L.to), z3.And([a == b for a, b in zip(L.I("null_tc"), L.tc)]),
        z3.Implies(nd, z3.And(eq4(L.nullifier, L.sp.hash(L.sp.hash(salt_n + secret + L.tc))), eq4(L.bh, L.sp.hash(hdr)),
                              eq4(L.I("zk_tree_root"), L.root), eq4(L.root, T(cuts[16])))))
    cs = completeness(sx, "C05", "every honest statement (ranges, fee rule, depth<=16, positions 0..3, address/nullifier/header/"
                      "tree bindings; dummies need none of the last three) satisfies the leaf constraint system", accept,
                      extra=L.sp.axioms(), timeout_s=600, verbose=True)
    s.results += cs.results
    return [s]


def c05_structure(L, tier):
    """public-input order = documented layout (structural: PI classes vs named target classes)"""
    s = L.session("C05")
    ir = L.ir
    pic = ir["public_inputs"]
    exp = (ir["named"]["asset_id"] + ir["named"]["out1"] + ir["named"]["out2"] + ir["named"]["fee"] + ir["named"]["nullifier"]
           + ir["named"]["exit1"] + ir["named"]["exit2"] + ir["named"]["block_hash"] + ir["named"]["block_number"])
    ok = pic == exp
    s.results.append(Result("21 public inputs are asset,out1,out2,fee,nullifier,exit1,exit2,block_hash,block_number (wire classes)",
                            "holds", "HOLDS" if ok else "CEX", 0.0))
    return [s]
