"""C24-C29 (native halves): Kani/CBMC harnesses over the real Rust code."""
import os
import sys
import time

sys.path.insert(0, os.path.join(os.path.dirname(os.path.dirname(os.path.abspath(__file__))), "native"))
import kanilib  # noqa: E402
from registry import register, known_findings  # noqa: E402

GUARD = "quantus_network_qp_zk_circuits_verif"
K_ASSUME = [
    "Kani 0.68 / CBMC 6.11 (CaDiCaL) verdicts with unwinding assertions on",
    "anyhow replaced by kani-h/shims/anyhow in the harness build only (same control flow, static tag instead of a formatted message)",
    "alloc::fmt::format stubbed to an empty String in the harness build (error messages are not the subject)",
]
HASH_MODEL = "qp_poseidon_core::hash_to_bytes stubbed by a deterministic recording model (the harness compares the preimage handed to the sponge)"


def run_kani_check(pid, tier, jobs, functions, bounds, assumptions, timeout_q=900, timeout_t=3600, parallel=8, mem_gb=12):
    t0 = time.time()
    os.environ["RUSTFLAGS"] = f"--cfg {GUARD}"
    results = kanilib.run_many(jobs, timeout_q if tier == "quick" else timeout_t, mem_gb=mem_gb, parallel=parallel)
    rc = 0
    inconcl = []
    known = [k for k in known_findings() if k.get("property") == pid and k.get("status") == "open"]
    reported = []
    for r in results:
        if r.verdict == "SUCCESSFUL":
            continue
        if r.verdict == "FAILED":
            unwind_only = r.failed_checks and all("unwinding assertion" in c for c in r.failed_checks)
            if unwind_only:
                inconcl.append(f"{r.name}: unwinding bound too small (bounded claim not established)")
                continue
            try:
                ok, path, detail = kanilib.native_replay(r.crate, r.name)
            except Exception as e:
                ok, path, detail = False, "", f"replay machinery failed: {e}"
            what = f"{r.crate}::{r.name}: {'; '.join(r.failed_checks[:3])}; {detail}"
            if ok:
                hit = [k for k in known if k.get("match") and k["match"] in what]
                if hit:
                    print(f"KNOWN-FINDING: property={pid} {hit[0]['what']}")
                    reported.append(hit[0]["what"])
                else:
                    print(f"VIOLATION property={pid} replay={path}")
                    print(f"  failing harness: {r.crate}::{r.name}: {'; '.join(r.failed_checks[:3])}")
                    rc = 1
            else:
                inconcl.append(f"{r.name}: solver counterexample did not reproduce natively ({detail}); failed checks: {r.failed_checks[:3]}")
        elif r.verdict == "BUILD_ERROR":
            print(f"harness crate {r.crate} does not build against the current /repo tree:\n{r.log[-1500:]}")
            if rc == 0:
                rc = 3
        else:
            inconcl.append(f"{r.name}: {r.verdict} (no verdict within the cap)")
    for r in results:
        if r.verdict == "SUCCESSFUL" and r.covers[1] > 0 and r.covers[0] == 0:
            inconcl.append(f"{r.name}: vacuity guard failed (no cover property reachable)")
    if rc == 0 and inconcl:
        for m in inconcl:
            print("INCONCLUSIVE:", m)
        rc = 2
    kanilib.write_evidence(pid, tier, t0, results, functions, bounds, K_ASSUME + assumptions, violations=1 if rc == 1 else 0, known=reported)
    print(f"[{pid}] {sum(1 for r in results if r.verdict == 'SUCCESSFUL')}/{len(results)} harnesses verified, wall {time.time() - t0:.1f}s, exit {rc}")
    return rc


INPUTS_PARSERS = ["leaf_parser_total_exact_fields", "leaf_parser_rejects_every_other_length",
                  "public_batch_parser_1x1_total_and_exact", "public_batch_parser_rejects_bad_counts_and_lengths"]
INPUTS_PARSERS_T = ["private_batch_parser_n1_total_and_exact", "private_batch_parser_n2_total_and_exact",
                    "private_batch_parser_rejects_malformed_lengths", "public_batch_parser_mn2_total_and_exact"]


@register("C24")
def c24(pid, tier):
    hs = INPUTS_PARSERS + (INPUTS_PARSERS_T if tier == "thorough" else [])
    return run_kani_check(pid, tier, [("inputs", h) for h in hs],
                          ["qp_wormhole_inputs::PublicCircuitInputs::try_from_u64_slice", "PrivateBatchPublicInputs::try_from_u64_slice (thorough)",
                           "PublicBatchPublicInputs::try_from_u64_slice", "hash_u64s_to_bytes_digest", "BytesDigest::try_from", "validate_proof_count", "public_batch_pi::try_pi_len"],
                          {"leaf": "every [u64;21] and every other length <= 24", "public_batch": "(M,N)=(1,1) all 26-felt vectors; all counts (full usize) x lengths <= 41 that do not match the layout are rejected; thorough adds M*N=2",
                           "private_batch": "thorough tier only: N in {1,2} all vectors; lengths <= 72 off the layout rejected",
                           "outside": "larger layouts; the felt-based parsers of wormhole/circuit (plonky2 field types) and the u64-vs-felt cross-parser agreement are not encoded (see DESIGN.md)"},
                          [], timeout_q=1500, timeout_t=7200, parallel=4, mem_gb=14)


@register("C25")
def c25(pid, tier):
    hs = [("inputs", "digest_accepted_iff_limbs_canonical")] + [("common", h) for h in (
        ["u64_limb_encoding_inverts_and_rejects_wide_limbs", "u128_limb_encoding_inverts_and_rejects_wide_limbs",
         "quantization_fails_exactly_above_u32_near_the_cap", "accepted_digest_round_trips_through_felts",
         "byte_encoders_reject_input_longer_than_1_mib", "edge_decoding_total_0_felts", "edge_decoding_total_1_felt", "edge_decoding_total_2_felts"]
        + [f"edge_encoding_round_trips_len_{n}" for n in ((0, 1, 3, 4, 5, 8) if tier == "quick" else range(10))])]
    return run_kani_check(pid, tier, hs,
                          ["zk_circuits_common::serialization::{u64_to_felts, try_felts_to_u64, u128_to_felts, try_felts_to_u128, try_u128_to_quantized_felt, bytes_to_digest, digest_to_bytes, bytes_to_felts, felts_to_bytes, bytes_to_felts_compact}",
                           "qp_poseidon_core::serialization::{bytes_to_u64s, u64s_to_bytes} (pinned dependency source)", "qp_wormhole_inputs::BytesDigest::try_from([u8;32])"],
                          {"integers": "all u64 / u128 values and all limb values (full width)", "digests": "all 2^256 byte strings",
                           "edge_encoding": "every byte string of length 0..9 (quick: lengths 0,1,3,4,5,8), symbolic content; injectivity follows from the round trip; longer strings outside the claim",
                           "cap": "rejection at 1 MiB + 1 byte (length-only); acceptance at exactly 1 MiB not encoded",
                           "quantization": "amounts within 2^20 units of the u32 cap on both sides (the full-range claim needs 128-bit division by 10^10, which CBMC does not finish)"},
                          [], timeout_q=1200, timeout_t=3600, parallel=8)


@register("C26")
def c26(pid, tier):
    hs = [("common", f"compact_hash_domain_len_{n}") for n in ((0, 7, 8, 24) if tier == "quick" else (0, 7, 8, 9, 16, 24))]
    hs += [("common", "byte_encoders_reject_input_longer_than_1_mib")]
    # the node-hash harness (sort of four 32-byte children over a stubbed sponge) is kept in kani-h/common but not
    # registered: it runs 10+ minutes and ends in allocator-model failures that do not replay (DESIGN.md section 4)
    return run_kani_check(pid, tier, hs,
                          ["zk_circuits_common::serialization::hash_bytes_compact (via guarded re-export)", "qp_poseidon_core::serialization::{bytes_to_felts_compact, bytes_to_u64s_compact}",
],
                          {"compact_hash": "inputs of length 0,7,8,(9,16,)24 with symbolic content: accepted iff aligned and every limb < p; the felt sequence passed to the sponge equals the limb sequence (injective)",
                           "outside": "longer inputs; hash_node / hash_node_presorted (error on non-canonical child, order independence) are NOT covered: the harness did not produce a replayable verdict; the Poseidon2 permutation itself"},
                          [HASH_MODEL], timeout_q=1800, timeout_t=3600, parallel=8, mem_gb=14)


@register("C28")
def c28(pid, tier):
    return run_kani_check(pid, tier, [("common", "circuit_config_policy_is_exactly_the_documented_conjunction")],
                          ["zk_circuits_common::circuit::validate_circuit_config", "log2_ceil"],
                          {"config": "every CircuitConfig whose nine numeric knobs are arbitrary usize values (full width), remaining fields from standard_recursion_config",
                           "outside": "that each constructor calls the policy first is established by the constructors' first statement (WormholeCircuit::new, PrivateBatchCircuit::new, PublicBatchCircuit::new) and is not a solver claim; the memprof CLI flag validation is not encoded"},
                          [], timeout_q=600, parallel=1)


@register("C29")
def c29(pid, tier):
    return run_kani_check(pid, tier, [("inputs", "validate_proof_count_exact"), ("inputs", "try_pi_len_exact_within_documented_counts"),
                                      ("inputs", "public_batch_parser_rejects_bad_counts_and_lengths")],
                          ["qp_wormhole_inputs::validate_proof_count", "public_batch_pi::{pi_len, try_pi_len}", "PublicBatchPublicInputs::try_from_u64_slice (count checks first)"],
                          {"count": "every usize", "layout_length": "exact (no wrap) for all m,n <= 64, the documented range; for larger counts the parser harness shows rejection before any layout arithmetic is used",
                           "outside": "the other entry points named by the property (config loader + serde round trip, circuit/prover constructors, pool, artifact builders) are not encoded"},
                          [], timeout_q=1500, parallel=3)
