"""C24-C29 (native halves): Kani/CBMC harnesses over the real Rust code."""
import os
import sys
import time

sys.path.insert(0, os.path.join(os.path.dirname(os.path.dirname(os.path.abspath(__file__))), "native"))
import kanilib  # noqa: E402
from registry import register, known_findings  # noqa: E402

GUARD = "quantus_network_qp_zk_circuits_verif"
K_ASSUME = [
    "Kani 0.68 / CBMC 6.11 (CaDiCaL) verdicts with unwinding assertions on",
    "anyhow replaced by kani-h/shims/anyhow in the harness build only (same control flow, static tag instead of a formatted message)",
    "alloc::fmt::format stubbed to an empty String in the harness build (error messages are not the subject)",
]
HASH_MODEL = "qp_poseidon_core::hash_to_bytes stubbed by a deterministic recording model (the harness compares the preimage handed to the sponge)"


def run_kani_check(pid, tier, jobs, functions, bounds, assumptions, timeout_q=900, timeout_t=3600, parallel=8, mem_gb=12, mir=None, best_effort=()):
    t0 = time.time()
    os.environ["RUSTFLAGS"] = f"--cfg {GUARD}"
    results = kanilib.run_many(jobs, timeout_q if tier == "quick" else timeout_t, mem_gb=mem_gb, parallel=parallel)
    rc = 0
    inconcl = []
    known = [k for k in known_findings() if k.get("property") == pid and k.get("status") == "open"]
    reported = []
    mir_results = []
    if mir:
        import csxlib
        try:
            csxlib.build_emitter()
            mir_results, cexs = mir_queries(mir)
        except Exception as e:
            inconcl.append(f"MIR->SMT engine failed: {e}")
            cexs = []
        for r in mir_results:
            print(f"  [mir ] {r.name:110s} {r.verdict:11s} {r.secs:6.2f}s", flush=True)
            if r.verdict == "UNKNOWN":
                inconcl.append(f"{r.name}: no solver verdict")
        for rr, what, reproduced in cexs:
            path = os.path.join(kanilib.VERIF, "evidence", "replays", f"mir.{pid}.txt")
            os.makedirs(os.path.dirname(path), exist_ok=True)
            open(path, "a").write(what + "\n")
            if reproduced:
                print(f"VIOLATION property={pid} replay={path}")
                print(f"  failing query: {rr.name}: {what}")
                rc = 1
            else:
                inconcl.append(f"{rr.name}: counterexample did not reproduce natively ({what})")
    for r in results:
        if r.verdict == "SUCCESSFUL":
            continue
        if r.verdict == "FAILED":
            unwind_only = r.failed_checks and all("unwinding assertion" in c for c in r.failed_checks)
            if unwind_only:
                inconcl.append(f"{r.name}: unwinding bound too small (bounded claim not established)")
                continue
            try:
                ok, path, detail = kanilib.native_replay(r.crate, r.name)
            except Exception as e:
                ok, path, detail = False, "", f"replay machinery failed: {e}"
            what = f"{r.crate}::{r.name}: {'; '.join(r.failed_checks[:3])}; {detail}"
            if ok:
                hit = [k for k in known if k.get("match") and k["match"] in what]
                if hit:
                    print(f"KNOWN-FINDING: property={pid} {hit[0]['what']}")
                    reported.append(hit[0]["what"])
                else:
                    print(f"VIOLATION property={pid} replay={path}")
                    print(f"  failing harness: {r.crate}::{r.name}: {'; '.join(r.failed_checks[:3])}")
                    rc = 1
            else:
                inconcl.append(f"{r.name}: solver counterexample did not reproduce natively ({detail}); failed checks: {r.failed_checks[:3]}")
        elif r.verdict == "BUILD_ERROR":
            print(f"harness crate {r.crate} does not build against the current /repo tree:\n{r.log[-1500:]}")
            if rc == 0:
                rc = 3
        elif r.name in best_effort:
            # deeper harnesses attempted in the thorough tier only: no verdict = nothing claimed for them (recorded in the evidence)
            print(f"  [kani] {r.name}: {r.verdict} - attempted beyond the claimed bound, no verdict, not part of the claim", flush=True)
        else:
            inconcl.append(f"{r.name}: {r.verdict} (no verdict within the cap)")
    attempted = [r.name for r in results if r.name in best_effort and r.verdict not in ("SUCCESSFUL", "FAILED")]
    results = [r for r in results if r.name not in attempted]
    if attempted:
        bounds = dict(bounds, attempted_without_verdict=attempted)
    for r in results:
        if r.verdict == "SUCCESSFUL" and r.covers[1] > 0 and r.covers[0] == 0:
            inconcl.append(f"{r.name}: vacuity guard failed (no cover property reachable)")
    if rc == 0 and inconcl:
        for m in inconcl:
            print("INCONCLUSIVE:", m)
        rc = 2
    results = results + mir_results
    kanilib.write_evidence(pid, tier, t0, results, functions, bounds, K_ASSUME + assumptions + (["MIR->SMT (native/mirsmt.py): MIR of the current source from the nightly compiler, mathematical integers with explicit range constraints, library calls checked_mul/checked_add modelled; z3 nonlinear integer arithmetic"] if mir else []), violations=1 if rc == 1 else 0, known=reported)
    print(f"[{pid}] {sum(1 for r in results if r.verdict == 'SUCCESSFUL')}/{len(results)} harnesses/queries verified, wall {time.time() - t0:.1f}s, exit {rc}")
    return rc


INPUTS_PARSERS = ["leaf_parser_total_exact_fields", "leaf_parser_rejects_every_other_length",
                  "public_batch_parser_1x1_total_and_exact", "public_batch_parser_rejects_bad_counts_and_lengths",
                  "private_batch_parser_n1_total_and_exact", "private_batch_parser_rejects_malformed_lengths"]
INPUTS_PARSERS_T = ["private_batch_parser_n2_total_and_exact", "public_batch_parser_mn2_total_and_exact"]


@register("C24")
def c24(pid, tier):
    hs = INPUTS_PARSERS + (INPUTS_PARSERS_T if tier == "thorough" else [])
    return run_kani_check(pid, tier, [("inputs", h) for h in hs], best_effort=tuple(INPUTS_PARSERS_T), functions=
                          ["qp_wormhole_inputs::PublicCircuitInputs::try_from_u64_slice", "PrivateBatchPublicInputs::try_from_u64_slice",
                           "PublicBatchPublicInputs::try_from_u64_slice", "hash_u64s_to_bytes_digest", "BytesDigest::try_from", "validate_proof_count", "public_batch_pi::try_pi_len"], bounds=
                          {"leaf": "every [u64;21] and every other length <= 24", "public_batch": "(M,N)=(1,1) all 26-felt vectors; all counts (full usize) x lengths <= 41 that do not match the layout are rejected; thorough attempts M*N=2 (claimed only if it finishes)",
                           "private_batch": "N=1 all 29-felt vectors; every length 0..72 off the layout (29, 50, 71) rejected without panic; thorough attempts N=2 all vectors (claimed only if it finishes)",
                           "outside": "larger layouts; the felt-based parsers of wormhole/circuit (plonky2 field types) and the u64-vs-felt cross-parser agreement are not encoded (see DESIGN.md)"},
                          assumptions=[], timeout_q=1500, timeout_t=7200, parallel=4, mem_gb=14)


@register("C25")
def c25(pid, tier):
    hs = [("inputs", "digest_accepted_iff_limbs_canonical")] + [("common", h) for h in (
        ["u64_limb_encoding_inverts_and_rejects_wide_limbs", "u128_limb_encoding_inverts_and_rejects_wide_limbs",
         "quantization_fails_exactly_above_u32_near_the_cap", "accepted_digest_round_trips_through_felts",
         "byte_encoders_reject_input_longer_than_1_mib", "edge_decoding_total_0_felts", "edge_decoding_total_1_felt", "edge_decoding_total_2_felts"]
        + [f"edge_encoding_round_trips_len_{n}" for n in ((0, 1, 3, 4, 5, 8) if tier == "quick" else range(10))])]
    return run_kani_check(pid, tier, hs,
                          ["zk_circuits_common::serialization::{u64_to_felts, try_felts_to_u64, u128_to_felts, try_felts_to_u128, try_u128_to_quantized_felt, bytes_to_digest, digest_to_bytes, bytes_to_felts, felts_to_bytes, bytes_to_felts_compact}",
                           "qp_poseidon_core::serialization::{bytes_to_u64s, u64s_to_bytes} (pinned dependency source)", "qp_wormhole_inputs::BytesDigest::try_from([u8;32])"],
                          {"integers": "all u64 / u128 values and all limb values (full width)", "digests": "all 2^256 byte strings",
                           "edge_encoding": "every byte string of length 0..9 (quick: lengths 0,1,3,4,5,8), symbolic content; injectivity follows from the round trip; longer strings outside the claim",
                           "cap": "rejection at 1 MiB + 1 byte (length-only); acceptance at exactly 1 MiB not encoded",
                           "quantization": "every u128 amount via the MIR->SMT engine (Kani only within 2^20 units of the cap: 128-bit division by 10^10 does not finish in CBMC)"},
                          [], timeout_q=1200, timeout_t=3600, parallel=8, mir="C25")


@register("C26")
def c26(pid, tier):
    hs = [("common", f"compact_hash_domain_len_{n}") for n in ((0, 7, 8, 24) if tier == "quick" else (0, 7, 8, 9, 16, 24))]
    hs += [("common", "byte_encoders_reject_input_longer_than_1_mib")]
    # the node-hash harness (sort of four 32-byte children over a stubbed sponge) is kept in kani-h/common but not
    # registered: it runs 10+ minutes and ends in allocator-model failures that do not replay (DESIGN.md section 4)
    return run_kani_check(pid, tier, hs,
                          ["zk_circuits_common::serialization::hash_bytes_compact (via guarded re-export)", "qp_poseidon_core::serialization::{bytes_to_felts_compact, bytes_to_u64s_compact}",
],
                          {"compact_hash": "inputs of length 0,7,8,(9,16,)24 with symbolic content: accepted iff aligned and every limb < p; the felt sequence passed to the sponge equals the limb sequence (injective)",
                           "outside": "longer inputs; hash_node / hash_node_presorted (error on non-canonical child, order independence) are NOT covered: the harness did not produce a replayable verdict; the Poseidon2 permutation itself"},
                          [HASH_MODEL], timeout_q=1800, timeout_t=3600, parallel=8, mem_gb=14)


@register("C28")
def c28(pid, tier):
    return run_kani_check(pid, tier, [("common", "circuit_config_policy_is_exactly_the_documented_conjunction")],
                          ["zk_circuits_common::circuit::validate_circuit_config", "log2_ceil", "wormhole_circuit::circuit::circuit_logic::WormholeCircuit::new (MIR)",
                           "wormhole_aggregator::private_batch::circuit::circuit_logic::PrivateBatchCircuit::new (MIR)", "wormhole_aggregator::public_batch::circuit::circuit_logic::PublicBatchCircuit::new (MIR)"],
                          {"config": "every CircuitConfig whose nine numeric knobs are arbitrary usize values (full width), remaining fields from standard_recursion_config",
                           "constructors": "WormholeCircuit::new, PrivateBatchCircuit::new, PublicBatchCircuit::new from their MIR (over-approximated paths, every other call opaque): the config parameter reaches no other function, and no path returns Ok, unless validate_circuit_config(&config) returned Ok earlier on the path; counterexamples are confirmed by the real constructors on eleven configs failing exactly one clause (csx-emit cfgrun, catch_unwind)",
                           "outside": "what the builder does with a config that passed the policy (the 'without panicking' clause is established only up to the hand-over of the config: a rejected config never reaches builder code); constructors of the provers/aggregator that forward to these three; the memprof CLI flag validation is not encoded"},
                          ["constructor queries: every call other than validate_circuit_config is opaque (havoc: unknown Results may be Ok or Err); a call that receives the config parameter ends the path as a sink"],
                          timeout_q=600, parallel=1, mir="C28")


@register("C29")
def c29(pid, tier):
    return run_kani_check(pid, tier, [("inputs", "validate_proof_count_exact"), ("inputs", "try_pi_len_exact_within_documented_counts"),
                                      ("inputs", "public_batch_parser_rejects_bad_counts_and_lengths")],
                          ["qp_wormhole_inputs::validate_proof_count", "public_batch_pi::{pi_len, try_pi_len}", "PublicBatchPublicInputs::try_from_u64_slice (count checks first)"],
                          {"count": "every usize", "layout_length": "try_pi_len exact (no wrap) for ALL m,n in usize via the MIR->SMT engine (Kani cross-check for m,n <= 64); the parser harness shows rejection of out-of-range counts before layout arithmetic",
                           "outside": "the other entry points named by the property (config loader + serde round trip, circuit/prover constructors, pool, artifact builders) are not encoded"},
                          [], timeout_q=1500, parallel=3, mir="C29")


# ----------------------------------------------------------------------------- MIR -> SMT queries (second native engine)
def mir_queries(which):
    """Full-width integer claims decided by z3 over the MIR of /repo's current source.
    Returns list of kanilib.HarnessResult-like records (crate 'mir') and a list of (name, args) counterexamples."""
    import subprocess
    import z3
    import mirsmt
    import csxlib
    out, cexs = [], []
    W = 2 ** 64

    def rec(name, verdict, secs):
        r = kanilib.HarnessResult("mir", name)
        r.verdict = {"HOLDS": "SUCCESSFUL", "CEX": "FAILED"}.get(verdict, "UNKNOWN")
        r.secs = secs
        r.covers = (1, 1)
        out.append(r)
        return r

    tdir = os.path.join(kanilib.WORK, "mir-target")
    if which == "C29":
        mir = mirsmt.dump_mir("/repo/wormhole/inputs", tdir, ["--no-default-features"])
        ex = mirsmt.summarize(mir, "try_pi_len")
        m, n = ex.args[1].v, ex.args[2].v
        exact = 12 + m * (2 * n) * 5 + m * n * 4

        def goal(pc, outcome, ret):
            if outcome != "return":
                return z3.BoolVal(False)          # no panic / overflow outcome may be reachable
            if ret.variant == "None":
                return z3.Or(2 * n >= W, m * (2 * n) >= W, m * (2 * n) * 5 >= W, m * n >= W, m * n * 4 >= W, 12 + m * (2 * n) * 5 >= W, exact >= W)
            return z3.And(ret.payload["Some"][0].v == exact, exact < W, exact == 12 + 14 * m * n)
        res = mirsmt.prove(ex, "try_pi_len: Some(v) => v = 12+14mn exactly (no wrap); None => an intermediate exceeds usize; all m,n in usize", goal)
        verdict = "HOLDS" if all(r[1] == "HOLDS" for r in res) and not ex.havocs else ("CEX" if any(r[1] == "CEX" for r in res) else "UNKNOWN")
        rr = rec(f"try_pi_len_never_wraps_full_usize ({len(ex.paths)} MIR paths)", verdict, sum(r[2] for r in res))
        for r in res:
            if r[1] == "CEX":
                mv = r[3]
                a = [int(str(mv.eval(m, model_completion=True))), int(str(mv.eval(n, model_completion=True)))]
                got = subprocess.run([csxlib.EMIT_BIN, "call", "try_pi_len", str(a[0]), str(a[1])], capture_output=True, text=True).stdout.strip()
                want = 12 + 14 * a[0] * a[1]
                bad = (got.startswith("Some") and int(got.split()[1]) != want) or (got == "None" and want < W and 2 * a[1] < W and a[0] * 2 * a[1] * 5 < W)
                cexs.append((rr, f"try_pi_len({a[0]},{a[1]}) = {got}, exact value {want}", bad))
        ex2 = mirsmt.summarize(mir, "validate_proof_count")
        c = ex2.args[1].v
        res2 = mirsmt.prove(ex2, "validate_proof_count", lambda pc, o, ret: (z3.BoolVal(False) if o != "return" else ((z3.And(c >= 1, c <= 64)) if ret.variant == "Ok" else z3.Or(c == 0, c > 64))))
        verdict2 = "HOLDS" if all(r[1] == "HOLDS" for r in res2) else ("CEX" if any(r[1] == "CEX" for r in res2) else "UNKNOWN")
        rr2 = rec(f"validate_proof_count_exact_via_mir ({len(ex2.paths)} MIR paths)", verdict2, sum(r[2] for r in res2))
        for r in res2:
            if r[1] == "CEX":
                cv = int(str(r[3].eval(c, model_completion=True)))
                got = subprocess.run([csxlib.EMIT_BIN, "call", "validate_proof_count", str(cv)], capture_output=True, text=True).stdout.strip()
                cexs.append((rr2, f"validate_proof_count({cv}) = {got}", (got == "Ok") != (1 <= cv <= 64)))
    if which == "C25":
        mir = mirsmt.dump_mir("/repo/common", tdir)
        import glob
        import re as _re
        src = glob.glob(os.path.expanduser("~/.cargo/registry/src/*/qp-poseidon-core-3.1.0/src/serialization.rs"))[0]
        q = int(_re.search(r"AMOUNT_QUANTIZATION_FACTOR: u128 = ([0-9_]+)u128", open(src).read()).group(1).replace("_", ""))
        ex = mirsmt.summarize(mir, "serialization::try_u128_to_quantized_felt", extra_consts={"qp_poseidon_core::serialization::AMOUNT_QUANTIZATION_FACTOR": q})
        x = ex.args[1].v
        fits = x < (2 ** 32) * q
        res = mirsmt.prove(ex, "quantize", lambda pc, o, ret: (z3.BoolVal(False) if o != "return" else (fits if ret.variant == "Ok" else z3.Not(fits))))
        verdict = "HOLDS" if all(r[1] == "HOLDS" for r in res) else ("CEX" if any(r[1] == "CEX" for r in res) else "UNKNOWN")
        rr = rec(f"quantization_fails_exactly_above_u32_full_u128 ({len(ex.paths)} MIR paths; the quantization constant 10^10 is read from the pinned qp-poseidon-core source)", verdict, sum(r[2] for r in res))
        for r in res:
            if r[1] == "CEX":
                xv = int(str(r[3].eval(x, model_completion=True)))
                got = subprocess.run([csxlib.EMIT_BIN, "call", "quantize", str(xv)], capture_output=True, text=True).stdout.strip()
                cexs.append((rr, f"try_u128_to_quantized_felt({xv}) = {got}", got.startswith("Ok") != (xv // q <= 2 ** 32 - 1)))
    if which == "C28":
        import cfgcheck
        for name, verdict, secs, info in cfgcheck.run(kanilib.WORK):
            rr = rec(name, verdict, secs)
            if verdict == "CEX":
                path = os.path.join(kanilib.VERIF, "evidence", "replays", "C28.constructors.txt")
                os.makedirs(os.path.dirname(path), exist_ok=True)
                reproduced, text = cfgcheck.replay(csxlib.EMIT_BIN, path)
                cexs.append((rr, text + f" (details: {path})", reproduced))
    return out, cexs


def c14_private_probe(pid, tier):
    """Private layer of 'commit accepts => provable': the preflight itself does not finish under Kani
    (std HashMap), so the solver is used on the circuit side only: for every clause of the acceptance
    condition A(x) that C07 proves for the real wrapper circuit, z3 produces accepted-by-everything-else
    models violating exactly that clause, each model is shown unsatisfiable for the REAL circuit IR
    (UNSAT query), and the REAL preflight (guarded re-export, executed natively) must reject it."""
    import json
    import subprocess
    import z3
    import csxlib
    import wrappers
    csxlib.build_emitter()
    ns = [2] if tier == "quick" else [2, 3]
    k_models = 2 if tier == "quick" else 4
    irs = csxlib.emit(pid, [f"priv:{n}" for n in ns])
    recs, viol = [], []
    for n in ns:
        Pv = wrappers.Priv(irs[f"priv_{n}"], n)
        dom = Pv.precond() + [z3.Or(Pv.real)] + [c[wrappers.FEE] <= 10000 for c in Pv.child]
        dom += [z3.And(v >= 0, v < csxlib.P) for c in Pv.child for v in c]     # public inputs of a verified proof are canonical
        for cname, clause in Pv.A_parts.items():
            others = [c for nm, c in Pv.A_parts.items() if nm != cname]
            # shapes of the violation are forced one by one (which slots / which output columns collide), so that the probe does not
            # depend on which model the solver happens to return; then k_models unconstrained models
            W = wrappers
            ch = Pv.child
            eq4 = lambda a, b: z3.And([x == y for x, y in zip(a, b)])
            shapes = [[]]
            if "sum" in cname:
                shapes = [[eq4(ch[0][W.E1:W.E1 + 4], ch[1][W.E1:W.E1 + 4]), ch[0][W.O1] + ch[1][W.O1] >= 2 ** 32, Pv.real[0], Pv.real[1]],
                          [eq4(ch[0][W.E1:W.E1 + 4], ch[1][W.E2:W.E2 + 4]), ch[0][W.O1] + ch[1][W.O2] >= 2 ** 32, Pv.real[0], Pv.real[1]],
                          [eq4(ch[0][W.E2:W.E2 + 4], ch[1][W.E2:W.E2 + 4]), ch[0][W.O2] + ch[1][W.O2] >= 2 ** 32, Pv.real[0], Pv.real[1]],
                          [eq4(ch[0][W.E1:W.E1 + 4], ch[0][W.E2:W.E2 + 4]), ch[0][W.O1] + ch[0][W.O2] >= 2 ** 32, Pv.real[0]],
                          [eq4(ch[n - 1][W.E1:W.E1 + 4], ch[n - 1][W.E2:W.E2 + 4]), ch[n - 1][W.O1] + ch[n - 1][W.O2] >= 2 ** 32, Pv.real[n - 1]], []]
            elif "nullifier" in cname:
                shapes = [[eq4(ch[i][W.NUL:W.NUL + 4], ch[j][W.NUL:W.NUL + 4]), Pv.real[i], Pv.real[j]] for i in range(n) for j in range(i + 1, n)] + [[]]
            elif "block hash" in cname or "fee" in cname:
                shapes = [[Pv.real[i], Pv.real[j]] + [z3.Not(Pv.real[k]) for k in range(n) if k not in (i, j)] for i in range(n) for j in range(i + 1, n)] + [[]]
            found = 0
            for shape in shapes:
              s = z3.Solver()
              s.set("timeout", 120000)
              s.add(dom + others + [z3.Not(clause)] + shape)
              budget = found + (k_models if not shape else 1)
              while found < budget and s.check() == z3.sat:
                  m = s.model()
                  ev = lambda e: int(str(m.eval(e, model_completion=True)))
                  x = [[ev(v) for v in c] for c in Pv.child]
                  found += 1
                  s.add(z3.Or([v != xv for c, xc in zip(Pv.child, x) for v, xv in zip(c, xc)][:8]))
                  # (i) the real circuit cannot be satisfied for x
                  q = z3.Solver()
                  q.set("timeout", 120000)
                  q.add(Pv.base())
                  q.add([v == xv for c, xc in zip(Pv.child, x) for v, xv in zip(c, xc)])
                  circ = q.check()
                  # (ii) the real preflight on x
                  out = subprocess.run([csxlib.EMIT_BIN, "call", "preflight_priv", json.dumps(x)], capture_output=True, text=True).stdout.strip()
                  name = f"N={n}: batch violating only '{cname}' (model {found}): circuit unsatisfiable and the real commit preflight rejects it"
                  ok = (circ == z3.unsat) and out == "Err"
                  r = kanilib.HarnessResult("csx+native", name)
                  r.verdict = "SUCCESSFUL" if ok else ("FAILED" if (circ == z3.unsat and out == "Ok") else "UNKNOWN")
                  r.covers = (1, 1)
                  recs.append(r)
                  print(f"  [c14 ] {name:120s} circuit={circ} preflight={out}", flush=True)
                  if r.verdict == "FAILED":
                      named = {f"child_{i}": x[i] for i in range(n)}
                      named.update({f"pre_{i}": [1, 2, 3, 4 + i] for i in range(n)})
                      rp = csxlib.replay(pid, f"priv:{n}", [{"label": "commit-accepted batch", "mode": "honest", "named": named}])
                      path = csxlib.replay_path(pid)
                      json.dump({"clause": cname, "children": x, "real_preflight": out, "real_wrapper_prover": rp}, open(path, "w"))
                      viol.append((r, path, f"commit preflight accepts a batch the circuit cannot prove: violates '{cname}' (N={n}); real prover: {rp[0].get('detail')}", not rp[0].get("accepted")))
            if found == 0:
                r = kanilib.HarnessResult("csx+native", f"N={n}: no model violating only '{cname}' (clause not independently violable at this N)")
                r.verdict = "SUCCESSFUL"
                recs.append(r)
    return recs, viol


@register("C14")
def c14(pid, tier):
    t0 = time.time()
    os.environ["RUSTFLAGS"] = f"--cfg {GUARD}"
    results = kanilib.run_many([("agg", "public_preflight_accepts_exactly_provable_batches_m2")], 2400, mem_gb=14, parallel=1)
    rc, inconcl, reported = 0, [], []
    known = [k for k in known_findings() if k.get("property") == pid and k.get("status") == "open"]
    for r in results:
        if r.verdict == "FAILED":
            ok, path, detail = kanilib.native_replay(r.crate, r.name)
            if ok:
                print(f"VIOLATION property={pid} replay={path}")
                print(f"  failing harness: {r.crate}::{r.name}: {'; '.join(r.failed_checks[:3])}")
                rc = 1
            else:
                inconcl.append(f"{r.name}: counterexample did not reproduce natively ({detail})")
        elif r.verdict != "SUCCESSFUL":
            inconcl.append(f"{r.name}: {r.verdict}")
    recs, viol = c14_private_probe(pid, tier)
    for r, path, what, reproduced in viol:
        hit = [k for k in known if k.get("match") and k["match"] in what]
        if reproduced and hit:
            if hit[0]["what"] not in reported:
                print(f"KNOWN-FINDING: property={pid} {hit[0]['what']}")
                reported.append(hit[0]["what"])
        elif reproduced:
            print(f"VIOLATION property={pid} replay={path}")
            print(f"  {what}")
            rc = 1
        else:
            inconcl.append(what + " (did not reproduce)")
    inconcl += [f"{r.name}: no verdict" for r in recs if r.verdict == "UNKNOWN"]
    if rc == 0 and inconcl:
        for m in inconcl:
            print("INCONCLUSIVE:", m)
        rc = 2
    allr = results + recs
    kanilib.write_evidence(pid, tier, t0, allr,
                           ["wormhole_aggregator::public_batch::prover::lib::ensure_private_batch_compatible (Kani, via guarded re-export)",
                            "wormhole_aggregator::private_batch::prover::lib::ensure_leaf_batch_compatible (executed natively on solver models, via guarded re-export)",
                            "private wrapper circuit IR (build_private_batch_constraints) for the unsatisfiability side"],
                           {"public": "Kani: every pair (M=2) of private-batch headers: preflight accepts <=> (acceptance condition proved for the public wrapper by C13) AND a real inner is present",
                            "private": "NOT a for-all claim about the preflight code (its Kani harness does not finish: std HashMap under CBMC). For each of the five clauses of the acceptance condition that C07 proves for the real "
                                       "wrapper circuit, z3 yields models violating exactly that clause (2 per clause and N=2 quick; 4 and N in {2,3} thorough); each model is proved unsatisfiable for the real circuit IR and the real "
                                       "preflight must reject it. This finds 'commit accepts an unprovable batch' defects; it does not prove their absence.",
                            "outside": "the other commit steps of C14 (length bounds, per-proof cryptographic verification, padding asset compatibility, 'rejects only for documented reasons')"},
                           K_ASSUME + ["real qp-plonky2 proof types with empty proof bodies (the preflights only read public inputs)", "C07/C13: A(x) is exactly the wrapper circuits' acceptance condition"],
                           violations=1 if rc == 1 else 0, known=reported, level="other")
    print(f"[{pid}] {sum(1 for r in allr if r.verdict == 'SUCCESSFUL')}/{len(allr)} obligations discharged, wall {time.time() - t0:.1f}s, exit {rc}")
    return rc


def _unused_c14(pid, tier):
    return run_kani_check(pid, tier, [("agg", "private_preflight_accepts_exactly_provable_batches_n2"), ("agg", "public_preflight_accepts_exactly_provable_batches_m2")],
                          ["wormhole_aggregator::private_batch::prover::lib::ensure_leaf_batch_compatible (via guarded re-export)",
                           "wormhole_aggregator::public_batch::prover::lib::ensure_private_batch_compatible (via guarded re-export)"],
                          {"private": "every pair (N=2) of leaf statements that satisfy the C01 guarantees, canonical felts: preflight accepts <=> (wrapper acceptance condition A(x) proved for the circuit by C07) AND a real proof is present",
                           "public": "every pair (M=2) of private-batch headers: preflight accepts <=> (acceptance condition of C13) AND a real inner is present",
                           "outside": "larger batches; the other commit steps of C14 (length bounds, per-proof cryptographic verification under the pinned verifier, padding asset compatibility) need real proofs and are not encoded; "
                                      "the link 'A(x) = circuit acceptance' is the C07/C13 result, the Rust predicate here is its transcription"},
                          ["real qp-plonky2 proof types with empty proof bodies (the preflights only read public inputs)"], timeout_q=2400, timeout_t=3600, parallel=2, mem_gb=14)


# ----------------------------------------------------------------------------- C19 / C22: ProofPool::push from its MIR
POOL_FUNCS = ["wormhole_aggregator::pool::ProofPool::push (MIR of /repo's current source, every basic block)",
              "ProofPool::push::{closure#1} (the duplicate-nullifier predicate, executed from its own MIR)"]
POOL_ASSUME = ["stubs (environment models, see native/mirpool.py): ProofPool::len = number of pooled proofs; parse_metadata returns an arbitrary Result "
               "(what it accepts - length and canonical digests - is the parser's contract, see C24); BatchKey::is_dummy is an uninterpreted predicate of the key; "
               "Instant::now is monotonic; duration_since saturates; VerifierCircuitData::verify returns an arbitrary Result; BTreeMap/HashMap/Vec operations by "
               "their std contracts over arrays (has, cnt, nb, ni, nik); formatting/anyhow/clone/drop have no effect on the pool",
               "pre-state: limits as ProofPool::new admits them (all >= 1), counter <= limit, proof count <= max_proofs, bucket count <= max_buckets",
               "z3 verdicts (Int + Array theories); nightly rustc's MIR (-Zunpretty=mir, overflow checks on) is the program that is analysed"]


def run_pool_check(pid, tier):
    import z3
    import csxlib
    import poolcheck
    import mirpool
    from registry import finish
    t0 = time.time()
    csxlib.build_emitter()
    K = 2 if tier == "quick" else 4
    try:
        ex = poolcheck.load(K)
        ctx, qs = poolcheck.obligations(ex, pid)
    except mirpool.Unsupported as e:
        print(f"INCONCLUSIVE: the MIR of ProofPool::push uses a construct the executor does not model: {e}")
        return 2
    print(f"[{pid}] ProofPool::push: {len(ex.paths)} MIR paths (nullifier list length <= {K}); unmodelled effect-free calls: {sorted(ex.unknown_calls)}", flush=True)
    nval, vfails = poolcheck.validate_translation(ex, ctx, csxlib.EMIT_BIN, pid)
    print(f"[{pid}] translator validation: {nval} real push steps explained by the MIR summary, {len(vfails)} not", flush=True)
    inconcl = ["translator validation: " + f for f in vfails]
    replays = {}
    for q in qs:
        print(f"  {q.name[:150]:150s} {q.verdict:10s} {q.secs:6.2f}s", flush=True)
        if q.verdict != "CEX":
            continue
        rep = (False, "", "no realisable small instance of the counterexample")
        for k, (S, g, m) in enumerate(q.cex[:6] if q.cex else []):
            sm = poolcheck.small_model(ctx, S, [z3.Not(g)])
            if sm is None:
                continue
            sc = poolcheck.scenario_from_model(ctx, sm)
            rep = poolcheck.replay(pid, f"{qs.index(q)}.{k}", sc, csxlib.EMIT_BIN)
            if rep[0]:
                break
        if not q.cex and q.path is not None:
            rep = (False, "", "panic/overflow path: " + getattr(q, "note", ""))
        replays[q.name] = (rep[0], rep[1], q.name + "; " + rep[2])

    class Sess:
        results = qs
    rc, known = finish(pid, qs, replays, inconcl)
    csxlib.write_evidence(pid, tier, t0, [Sess], POOL_FUNCS,
                          {"step": "ONE call of push from an ARBITRARY pool state satisfying the stated pre-state assumptions (inductive step: covers histories of any length for the "
                                   "per-step clauses and for the window-counter invariant)",
                           "nullifiers_per_proof": f"<= {K} (symbolic length)", "integers": "mathematical integers constrained to usize; overflow of the counter increment is a checked outcome",
                           "paths": len(ex.paths),
                           "outside": "parse_metadata's own acceptance condition; evict_*/remove_bucket/snapshot (not analysed: closures over retain/filter_map are beyond this executor); "
                                      "that Instant::now is monotonic"},
                          POOL_ASSUME, extra={"states": len(ex.paths), "transitions": sum(len(S.events) for S, _, _ in ex.paths)},
                          traces_validated=nval, violations=1 if rc == 1 else 0, known=known)
    print(f"[{pid}] {sum(1 for q in qs if q.verdict in ('HOLDS', 'REACHABLE'))}/{len(qs)} queries discharged, wall {time.time() - t0:.1f}s, exit {rc}")
    return rc


@register("C19")
def c19(pid, tier):
    return run_pool_check(pid, tier)


@register("C22")
def c22(pid, tier):
    return run_pool_check(pid, tier)


# ----------------------------------------------------------------------------- C23: publication routine from its MIR over a filesystem model
@register("C23")
def c23(pid, tier):
    import csxlib
    import fscheck
    import mirpool
    from registry import finish
    t0 = time.time()
    csxlib.build_emitter()
    try:
        ex, eg, gpaths = fscheck.load()
        qs = fscheck.obligations(ex, eg, gpaths)
    except mirpool.Unsupported as e:
        print(f"INCONCLUSIVE: the MIR of the publish routine uses a construct the executor does not model: {e}")
        return 2
    print(f"[{pid}] commit_staging_dir_impl: {len(ex.paths)} MIR paths, generate_all_circuit_binaries: {len(gpaths)} paths; effect-free unmodelled calls: {sorted(ex.unknown_calls | eg.unknown_calls)}", flush=True)
    nval, vfails = fscheck.validate_translation(ex, csxlib.EMIT_BIN)
    print(f"[{pid}] translator validation: {nval}/{len(fscheck.BATTERY)} real fault schedules reproduced by the MIR model", flush=True)
    inconcl = ["translator validation: " + f for f in vfails]
    replays = {}
    for qi, q in enumerate(qs):
        print(f"  {q.name[:160]:160s} {q.verdict:10s} {q.secs:6.2f}s", flush=True)
        if q.verdict != "CEX":
            continue
        rep = (False, "", "no replayable instance (generation-level clause or panic path)")
        for k, (S, label, m) in enumerate(q.cex[:8]):
            if S not in [p[0] for p in ex.paths]:
                rep = fscheck.replay_generation(pid, f"{qi}.{k}", eg, S, m, csxlib.EMIT_BIN)
                if rep[0]:
                    break
                continue
            lab, snap_state = label if isinstance(label, tuple) else (label, None)
            rep = fscheck.replay(pid, f"{qi}.{k}", ex, S, lab, m, csxlib.EMIT_BIN, snap_state)
            if rep[0]:
                break
        replays[q.name] = (rep[0], rep[1], q.name + "; " + rep[2])

    class Sess:
        results = qs
    rc, known = finish(pid, qs, replays, inconcl)
    csxlib.write_evidence(pid, tier, t0, [Sess], ["qp_wormhole_circuit_builder::commit_staging_dir_impl (MIR of /repo's current source, every basic block)",
                                                  "qp_wormhole_circuit_builder::generate_all_circuit_binaries (control flow around staging / generation / commit; generation itself stubbed)"],
                          {"faults": "EVERY rename and remove_dir_all may fail (symbolic outcome per call); a failing remove_dir_all may leave the directory untouched or partially deleted",
                           "crash_points": "after every filesystem operation of every path (snapshot of the model filesystem) and at return",
                           "filesystem": "three locations (staging, output, moved-aside sibling), five content codes; rename is atomic and succeeds only onto an absent destination",
                           "outside": "create_staging_dir's name search, the artifact generators, fsync/durability, concurrent builders, a moved-aside name that already exists"},
                          ["filesystem model and stubs listed in native/mirfs.py", "the staged set is complete when commit is called (config file written last)",
                           "nightly rustc's MIR (-Zunpretty=mir) is the program that is analysed", "z3 verdicts"],
                          extra={"states": len(ex.paths) + len(gpaths), "transitions": sum(1 for S, _, _ in ex.paths for e in S.events if e[0] == "snap")},
                          traces_validated=nval, violations=1 if rc == 1 else 0, known=known)
    print(f"[{pid}] {sum(1 for q in qs if q.verdict in ('HOLDS', 'REACHABLE'))}/{len(qs)} queries discharged, wall {time.time() - t0:.1f}s, exit {rc}")
    return rc


# ----------------------------------------------------------------------------- C16: padding-template validators and their call sites from MIR
@register("C16")
def c16(pid, tier):
    import csxlib
    import tplcheck
    import mirpool
    from registry import finish
    t0 = time.time()
    csxlib.build_emitter()
    K = 3 if tier == "quick" else 8
    try:
        qs, info = tplcheck.run(K)
    except mirpool.Unsupported as e:
        print(f"INCONCLUSIVE: the MIR of a template validator / constructor uses a construct the executor does not model: {e}")
        return 2
    nval, vfails = tplcheck.validate_translation(csxlib.EMIT_BIN, pid)
    print(f"[{pid}] replay oracle vs REAL constructors (PrivateBatchProver::new / PublicBatchProver::new): {nval} templates agree, {len(vfails)} disagree", flush=True)
    inconcl = ["replay-oracle validation: " + f for f in vfails]
    replays = {}
    for qi, q in enumerate(qs):
        print(f"  {q.name[:170]:170s} {q.verdict:10s} {q.secs:6.2f}s", flush=True)
        if q.verdict != "CEX":
            continue
        rep = (False, "", "no replayable instance")
        if getattr(q, "validator", None):
            for k, (ex, S, m) in enumerate(q.cex[:6]):
                sc = tplcheck.leaf_scenario(ex, m) if q.validator == "verify_dummy_leaf_template" else tplcheck.priv_scenario(ex, m)
                rep = tplcheck.replay(pid, f"{qi}.{k}", sc, csxlib.EMIT_BIN)
                if rep[0]:
                    break
        elif getattr(q, "caller", None):
            # a constructor that can return Ok without a successful validation: hand it a template that must be refused
            if q.caller.endswith("::new"):
                sc = ({"kind": "leaf", "n": 1, "pis": [5] + [0] * 20, "tamper": False, "tamper_index": 4} if q.which == "verify_dummy_leaf_template"
                      else {"kind": "priv", "n": 1, "pis": [2, 0, 0, 1] + [0] * 25, "tamper": False, "tamper_index": 7})
                rep = tplcheck.replay(pid, f"{qi}.0", sc, csxlib.EMIT_BIN)
            else:
                rep = (False, "", "this entry point needs artifact bytes of the canonical circuits; no driver for it")
        replays[q.name] = (rep[0], rep[1], q.name + "; " + rep[2])

    class Sess:
        results = qs
    rc, known = finish(pid, qs, replays, inconcl)
    csxlib.write_evidence(pid, tier, t0, [Sess], ["wormhole_aggregator::private_batch::prover::verify_dummy_leaf_template", "wormhole_aggregator::public_batch::prover::verify_dummy_private_batch_template",
                                                  "the six functions that accept a template: " + ", ".join(c[0] for c in tplcheck.CALLERS)],
                          {"validators": f"every MIR path; parsed public inputs fully symbolic (integers at their declared widths, digests of an uninterpreted sort); exit-slot lists of length <= {K}",
                           "call_sites": "over-approximation: every unknown call returns an arbitrary value, every Result an arbitrary outcome; claim = no Ok return without a successful validator call",
                           "outside": "what the parsers accept and that they return the proof's own fields (C24); that the verifier handed in is the pinned one (C17); longer slot lists; "
                                      "a NEW constructor that takes a template (the list of six is fixed in native/tplcheck.py)", "encoding": info},
                          ["stubs listed in native/mirtpl.py", "nightly rustc's MIR is the program analysed", "z3 verdicts"],
                          extra={"states": sum(v.get("paths", 0) for v in info.values()), "transitions": len(qs)},
                          traces_validated=nval, violations=1 if rc == 1 else 0, known=known)
    print(f"[{pid}] {sum(1 for q in qs if q.verdict in ('HOLDS', 'REACHABLE'))}/{len(qs)} queries discharged, wall {time.time() - t0:.1f}s, exit {rc}")
    return rc
