"""Check registry: property id -> callable(pid, tier) -> exit code."""
import json
import os
import sys
import time
import traceback

CHECKS = {}
VERIF = os.path.dirname(os.path.dirname(os.path.abspath(__file__)))


def known_findings():
    p = os.path.join(VERIF, "known_findings.json")
    if not os.path.exists(p):
        return []
    return json.load(open(p)).get("findings", [])


def finish(pid, results, replays, inconclusive_msgs, infra_msgs=()):
    """Common verdict logic. results: list of csxlib.Result; replays: {result name: (reproduced, path, what)}"""
    known = [k for k in known_findings() if k.get("property") == pid and k.get("status") == "open"]
    rc = 0
    reported_known = []
    for r in results:
        if r.verdict == "CEX":
            rep = replays.get(r.name)
            if rep and rep[0]:
                what = rep[2]
                hit = [k for k in known if k.get("match") and k["match"] in what]
                if hit:
                    if hit[0]["what"] not in reported_known:
                        print(f"KNOWN-FINDING: property={pid} {hit[0]['what']}")
                        reported_known.append(hit[0]["what"])
                else:
                    print(f"VIOLATION property={pid} replay={rep[1]}")
                    print(f"  failing query: {r.name}")
                    rc = 1
            else:
                inconclusive_msgs.append(f"counterexample for '{r.name}' did not reproduce on the real code"
                                         + (f" ({rep[2]})" if rep else " (no replayer for this query)"))
        elif r.verdict in ("UNKNOWN",):
            inconclusive_msgs.append(f"solver gave no verdict for '{r.name}'")
        elif r.verdict == "VACUOUS":
            inconclusive_msgs.append(f"vacuity guard failed: '{r.name}' is unsatisfiable")
    if rc == 0 and inconclusive_msgs:
        for m in inconclusive_msgs:
            print("INCONCLUSIVE:", m)
        rc = 2
    return rc, reported_known


def register(pid):
    def deco(f):
        def wrapped(pid_, tier):
            try:
                return f(pid_, tier)
            except SystemExit as e:
                if isinstance(e.code, int):
                    return e.code
                print(e.code)
                return 3
            except Exception:
                traceback.print_exc()
                print("INCONCLUSIVE: check machinery raised an exception")
                return 2
        CHECKS[pid] = wrapped
        return f
    return deco


import checks_leaf  # noqa: E402,F401
for _m in ("checks_gadgets", "checks_wrappers", "checks_native"):
    try:
        __import__(_m)
    except ModuleNotFoundError as e:
        if e.name != _m:
            raise
