"""Gadget properties: C30 (less-than), C31 (digest sort), C10 (no witness freedom) over gadget IRs."""
import itertools
import random
import time

import z3

import symx
from csxlib import *
from symx import P


def lt_instances(tier, seed):
    """(left, n_log) grid: every width 1..64 with boundary constants + seeded random constants."""
    rnd = random.Random(seed * 7919 + 13)
    widths = list(range(1, 65))
    inst = []
    for w in widths:
        # width 64: the code's fit check is `left < usize::MAX`, so 2^64-1 is rejected at build time
        # (assert_comparison_width) although it fits 64 bits; the largest accepted constant is 2^64-2.
        top = (1 << w) - 1 if w < 64 else (1 << 64) - 2
        cs = {0, top, max(top - 1, 0), 1 if w > 1 else 0}
        if w == 64:
            cs |= {P - 1, P, P - 2, (1 << 32) - 1, 1 << 32, 0xFFFFFFFF00000000}
        n_rand = 1 if tier == "quick" else 4
        for _ in range(n_rand):
            cs.add(rnd.randrange(0, top + 1))
        if tier == "quick" and w not in (1, 2, 3, 5, 8, 16, 31, 32, 33, 48, 62, 63, 64):
            cs = {top, rnd.randrange(0, top + 1)}
        for c in sorted(cs):
            inst.append((c, w))
    return inst


def enf_instances(tier, seed):
    rnd = random.Random(seed * 104729 + 7)
    inst = [(17, 5), (1, 1), (2, 1), (32, 5), (31, 5), (1 << 32, 32), ((1 << 32) - 1, 32), (1 << 63, 63), (5, 63),
            ((1 << 64) - 1, 64), (P, 64), (P - 1, 64), (1, 64), (10001, 14)]
    n = 4 if tier == "quick" else 24
    for _ in range(n):
        w = rnd.randrange(1, 65)
        b = rnd.randrange(1, (1 << w) + 1)
        if b > (1 << 64) - 1:
            b = (1 << 64) - 1
        inst.append((b, w))
    return sorted(set(inst))


def check_lt(ir, left, w, timeout_s=60):
    sx = symx.SymX(ir, inputs=["x"])
    x, = sx.named_int("x")
    lt = sx.named("lt")[0]
    s = Session(f"lt c={left} w={w}", sx.asserts, timeout_s=timeout_s, verbose=False)
    ltb = lt.v if lt.k == "b" else (z3.BoolVal(lt.v == 1) if lt.k == "c" else lt.as_int() == 1)
    s.sat(f"lt(c={left},w={w}): vacuity, gadget satisfiable")
    if w < 64:
        s.holds(f"lt(c={left},w={w}): satisfiable => x < 2^w", x < (1 << w), dict(x=x))
    if lt.k == "i":
        s.holds(f"lt(c={left},w={w}): output boolean", z3.Or(lt.as_int() == 0, lt.as_int() == 1))
    s.holds(f"lt(c={left},w={w}): output = (c < x) for every witness", ltb == (left < x), dict(x=x))
    cs = completeness(sx, s.label, f"lt(c={left},w={w}): every x < 2^w has a witness", x < (1 << w) if w < 64 else z3.BoolVal(True), timeout_s=timeout_s)
    s.results += cs.results
    return sx, s


def check_enf(ir, bound, w, timeout_s=60):
    sx = symx.SymX(ir, inputs=["x"])
    x, = sx.named_int("x")
    s = Session(f"enf b={bound} w={w}", sx.asserts, timeout_s=timeout_s, verbose=False)
    s.sat(f"enforce_lt(b={bound},w={w}): vacuity, satisfiable")
    s.holds(f"enforce_lt(b={bound},w={w}): satisfiable => x < bound", x < bound, dict(x=x))
    cs = completeness(sx, s.label, f"enforce_lt(b={bound},w={w}): every x < bound has a witness", x < bound, timeout_s=timeout_s)
    s.results += cs.results
    return sx, s


def sort_assign(n, seed, k=6):
    """honest inputs for the sort gadget: random digests incl. duplicates and boundary limbs"""
    rnd = random.Random(seed * 31 + n)
    out = []
    pool = [0, 1, P - 1, P - 2, (1 << 32) - 1, 1 << 32, 0xFFFFFFFF00000000, (1 << 32) + 1]
    for j in range(k):
        digs = []
        for i in range(n):
            if digs and rnd.random() < 0.3:
                d = list(rnd.choice(digs))
                if rnd.random() < 0.5:
                    d[rnd.randrange(4)] = rnd.choice(pool)
            else:
                d = [rnd.choice(pool) if rnd.random() < 0.35 else rnd.randrange(P) for _ in range(4)]
            digs.append(d)
        out.append({"label": f"sort n={n} #{j}", "named": {f"in_{i}": digs[i] for i in range(n)}})
    return out


def check_sort(ir, n, timeout_s=300):
    t0 = time.time()
    sx = symx.SymX(ir, inputs=[f"in_{i}" for i in range(n)])
    ins = [sx.named_int(f"in_{i}") for i in range(n)]
    outs = [sx.named_int(f"out_{i}") for i in range(n)]
    s = Session(f"sort n={n}", sx.asserts, timeout_s=timeout_s)
    s.sat(f"sort(n={n}): vacuity, satisfiable")
    if n >= 2:
        s.sat(f"sort(n={n}): vacuity, satisfiable with equal digests", eq4(ins[0], ins[1]))
        s.sat(f"sort(n={n}): vacuity, satisfiable with a strictly descending input", lex_lt(ins[1], ins[0]))
    if n <= 3:
        for i in range(n - 1):
            s.holds(f"sort(n={n}): out[{i}] <= out[{i + 1}] lexicographically (limb 0 most significant)", lex_le(outs[i], outs[i + 1]))
    # n = 4: only permutation + completeness are asked; the order queries are outside the claim (measured:
    # out[2] <= out[3] has no verdict after 50 min, the other two take 3-10 min)
    perms = list(itertools.permutations(range(n)))
    s.holds(f"sort(n={n}): output is a permutation of the input ({len(perms)} cases)",
            z3.Or([z3.And([eq4(outs[k], ins[pi[k]]) for k in range(n)]) for pi in perms]))
    cs = completeness(sx, s.label, f"sort(n={n}): every list of canonical digests has a witness", z3.BoolVal(True), timeout_s=timeout_s)
    s.results += cs.results
    return sx, s


def determinism(ir, inputs, outputs, label, timeout_s=120):
    """Self-composition: two witness copies over shared inputs must agree on the outputs."""
    a = symx.SymX(ir, inputs=inputs, prefix="A_")
    b = symx.SymX(ir, inputs=inputs, prefix="B_", share=a)
    s = Session(label, a.asserts + b.asserts, timeout_s=timeout_s, verbose=True)
    s.sat(f"{label}: vacuity, two witnesses over shared inputs exist")
    oa = [t.as_int() for n in outputs for t in a.named(n)] if outputs else [t.as_int() for t in a.pis()]
    ob = [t.as_int() for n in outputs for t in b.named(n)] if outputs else [t.as_int() for t in b.pis()]
    s.holds(f"{label}: same inputs => same public output for every pair of witnesses",
            z3.And([x == y for x, y in zip(oa, ob)]))
    s.copy_b = b
    return a, s
