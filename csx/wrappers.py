"""Private/public batch wrapper properties (C06-C10, C12, C13, C36) over the wrapper IRs."""
import itertools
import random
import time

import z3

import symx
from csxlib import *
from symx import P

B32 = 2 ** 32
ASSET, O1, O2, FEE, NUL, E1, E2, BH, BN = 0, 1, 2, 3, 4, 8, 12, 16, 20
LEAF_PI_LEN = 21


# ----------------------------------------------------------------------------- honest inputs
def rand_digest(rnd, pool=None):
    edge = [0, 1, P - 1, (1 << 32) - 1, 1 << 32, 0xFFFFFFFF00000000]
    if pool and rnd.random() < 0.5:
        return list(rnd.choice(pool))
    return [rnd.choice(edge) if rnd.random() < 0.2 else rnd.randrange(P) for _ in range(4)]


def priv_honest_inputs(n, seed, k=6):
    """accepted child public-input vectors for the private wrapper (mix of real/dummy, repeated accounts)"""
    rnd = random.Random(seed * 1009 + n)
    out = []
    for j in range(k):
        asset = rnd.choice([0, 0, 7, B32 - 1])
        bh = [rnd.randrange(1, P) for _ in range(4)]
        fee = rnd.randrange(0, 10001)
        bn = rnd.randrange(B32)
        accts = [rand_digest(rnd) for _ in range(max(1, n))] + [[0, 0, 0, 0]]
        named = {}
        budget = B32 - 1
        alld = (j == k - 1)
        for i in range(n):
            dummy = alld or rnd.random() < 0.35
            c = [0] * LEAF_PI_LEN
            c[ASSET] = asset
            if dummy:
                c[FEE] = rnd.randrange(0, 10001); c[BN] = rnd.randrange(B32)
                c[NUL:NUL + 4] = rand_digest(rnd)
                c[E1:E1 + 4] = rand_digest(rnd, accts); c[E2:E2 + 4] = rand_digest(rnd, accts)
                c[O1] = rnd.choice([0, 0, rnd.randrange(B32)]); c[O2] = rnd.choice([0, rnd.randrange(B32)])
            else:
                c[FEE] = fee; c[BN] = bn if rnd.random() < 0.8 else rnd.randrange(B32)
                c[BH:BH + 4] = bh
                c[NUL:NUL + 4] = [rnd.randrange(P) for _ in range(4)]
                c[E1:E1 + 4] = rand_digest(rnd, accts); c[E2:E2 + 4] = rand_digest(rnd, accts)
                a1 = rnd.randrange(0, budget // (2 * n) + 1); a2 = rnd.randrange(0, budget // (2 * n) + 1)
                if j == 0 and i == 0:
                    a1 = budget // (2 * n)
                c[O1], c[O2] = a1, a2
            named[f"child_{i}"] = c
            named[f"pre_{i}"] = [rnd.randrange(P) for _ in range(4)]
        out.append({"label": f"priv n={n} #{j}", "named": named})
    return out


def priv_pi_len(n):
    return 21 * n + 8


def pub_honest_inputs(m, n, seed, k=5):
    rnd = random.Random(seed * 2003 + 17 * m + n)
    out = []
    L = priv_pi_len(n)
    for j in range(k):
        asset = rnd.randrange(B32); fee = rnd.randrange(10001)
        bh = [rnd.randrange(1, P) for _ in range(4)]
        named = {"addr": [rnd.randrange(P) for _ in range(4)]}
        for i in range(m):
            dummy = (j == k - 1) or rnd.random() < 0.35
            c = [rnd.randrange(P) if rnd.random() < 0.7 else 0 for _ in range(L)]
            c[0] = 2 * n
            if dummy:
                c[3:7] = [0, 0, 0, 0]
            else:
                c[1] = asset; c[2] = fee; c[3:7] = bh
            named[f"child_{i}"] = c
        out.append({"label": f"pub m={m} n={n} #{j}", "named": named})
    return out


# ----------------------------------------------------------------------------- private wrapper
class PrivSpec:
    """The private-batch specification O(x), A(x) over symbolic child statements (independent of any IR)."""

    def __init__(self, n, child, pre, sponge, pis=None):
        self.n, self.child, self.pre, self.sp, self.pis = n, child, pre, sponge, pis
        self._spec()

    def _spec(self):
        n, child = self.n, self.child
        self.dummy = [eq4(c[BH:BH + 4], [0] * 4) for c in child]
        self.real = [z3.Not(d) for d in self.dummy]
        real = self.real

        def first_real(lo, hi=None):
            width = 1 if hi is None else hi - lo
            e = [z3.IntVal(0)] * width
            for i in reversed(range(n)):
                vals = child[i][lo:lo + width]
                e = [z3.If(real[i], vals[j], e[j]) for j in range(width)]
            return e
        self.bh_ref = first_real(BH, BH + 4)
        self.bn_ref = first_real(BN)[0]
        self.fee_ref = first_real(FEE)[0]
        slots = []
        for i in range(n):
            for (ea, oa) in ((E1, O1), (E2, O2)):
                acct = [z3.If(self.dummy[i], 0, child[i][ea + j]) for j in range(4)]
                amt = z3.If(self.dummy[i], 0, child[i][oa])
                slots.append((acct, amt))
        self.slots = slots
        self.group_sum, self.first_occ = [], []
        for k, (acct, amt) in enumerate(slots):
            tot = z3.Sum([z3.If(eq4(a2, acct), m2, 0) for (a2, m2) in slots])
            dup = z3.Or([eq4(slots[j][0], acct) for j in range(k)]) if k > 0 else z3.BoolVal(False)
            self.group_sum.append(tot)
            self.first_occ.append(z3.Not(dup))
        self.A_parts = {
            "all slots share one asset id": z3.And([c[ASSET] == child[0][ASSET] for c in child]),
            "real slots share one block hash": z3.And([z3.Implies(real[i], eq4(child[i][BH:BH + 4], self.bh_ref)) for i in range(n)]),
            "real slots share one fee": z3.And([z3.Implies(real[i], child[i][FEE] == self.fee_ref) for i in range(n)]),
            "real nullifiers pairwise distinct": z3.And([z3.Implies(z3.And(real[i], real[j]), z3.Not(eq4(child[i][NUL:NUL + 4], child[j][NUL:NUL + 4])))
                                                         for i in range(n) for j in range(i + 1, n)] or [z3.BoolVal(True)]),
            "every grouped exit sum < 2^32": z3.And([self.group_sum[k] < B32 for k in range(2 * n)]),
        }
        self.A = z3.And(list(self.A_parts.values()))
        self.sel = [[z3.If(self.dummy[i], h, r) for h, r in zip(self.sp.hash(self.sp.hash(self.pre[i])), child[i][NUL:NUL + 4])]
                    for i in range(n)]
        self.header = [z3.IntVal(2 * n), child[0][ASSET], self.fee_ref] + self.bh_ref + [self.bn_ref]
        self.exp_slots = []
        for k in range(2 * n):
            self.exp_slots.append([z3.If(self.first_occ[k], self.group_sum[k], 0)] +
                                  [z3.If(self.first_occ[k], slots[k][0][j], 0) for j in range(4)])
        self.nstart = 8 + 10 * n
        if self.pis is not None:
            self.outn = [self.pis[self.nstart + 4 * i: self.nstart + 4 * i + 4] for i in range(n)]


class Priv:
    def __init__(self, ir, n, prefix="", share_vars=None):
        self.ir, self.n = ir, n
        names = [f"child_{i}" for i in range(n)] + [f"pre_{i}" for i in range(n)]
        t0 = time.time()
        self.sx = symx.SymX(ir, inputs=names, prefix=prefix, share_vars=share_vars)
        self.build_s = time.time() - t0
        sx = self.sx
        I = sx.named_int
        self.child = [I(f"child_{i}") for i in range(n)]
        self.pre = [I(f"pre_{i}") for i in range(n)]
        self.pis = [t.as_int() for t in sx.pis()]
        self.sp = Sponge(sx)
        self._spec()

    def stats(self):
        sx = self.sx
        return dict(rows=len(sx.rows), classes=len(sx.terms), assertions=len(sx.asserts),
                    abstracted_products=sx.abstracted, **sx.stats, encode_s=round(self.build_s, 2))

    def precond(self):
        """what C01 guarantees about every child statement (assume-guarantee)"""
        pc = []
        for c in self.child:
            pc += [c[ASSET] < B32, c[O1] < B32, c[O2] < B32, c[FEE] < B32, c[BN] < B32]
        return pc

    def _spec(self):
        sp = PrivSpec(self.n, self.child, self.pre, self.sp, self.pis)
        for k, v in sp.__dict__.items():
            if k not in ("n", "child", "pre", "sp", "pis"):
                setattr(self, k, v)

    def base(self):
        return self.sx.asserts + self.precond() + self.sp.axioms()


def c06(Pv, tier, timeout_s=300, part="ab"):
    n = Pv.n
    s = Session(f"C06 N={n}", Pv.base(), timeout_s=timeout_s, verbose=False)
    pis = Pv.pis
    if "a" not in part:
        return c06_nullifiers(Pv, s)
    s.sat(f"N={n}: vacuity, wrapper satisfiable")
    s.sat(f"N={n}: vacuity, satisfiable with a real slot", Pv.real[0])
    s.sat(f"N={n}: vacuity, satisfiable with a dummy slot", Pv.dummy[n - 1])
    if n >= 2:
        s.sat(f"N={n}: vacuity, two slots paying one account", eq4(Pv.slots[0][0], Pv.slots[2][0]), Pv.real[0], Pv.real[1], Pv.slots[0][1] > 0, Pv.slots[2][1] > 0)
    ok_len = len(pis) == 21 * n + 8
    s.results.append(Result(f"N={n}: output length = 21N+8", "holds", "HOLDS" if ok_len else "CEX", 0.0))
    s.holds(f"N={n}: header = [2N, asset, fee/block hash/block number of first real slot or 0]",
            z3.And([pis[k] == Pv.header[k] for k in range(8)]))
    for k in range(2 * n):
        s.holds(f"N={n}: exit slot {k} = first occurrence ? (group sum, account) : zero slot (dummy-masked)",
                z3.And([pis[8 + 5 * k + j] == Pv.exp_slots[k][j] for j in range(5)]))
    s.holds(f"N={n}: zero padding up to 21N+8", z3.And([pis[k] == 0 for k in range(Pv.nstart + 4 * n, len(pis))]))
    if "b" in part:
        c06_nullifiers(Pv, s)
    return s


def c06_nullifiers(Pv, s):
    n = Pv.n
    s.sat(f"N={n}: vacuity (nullifier region), satisfiable with a real and a dummy slot" if n > 1 else f"N={n}: vacuity (nullifier region), satisfiable",
          *([Pv.real[0], Pv.dummy[1]] if n > 1 else []))
    if n > 1:
        s.holds(f"N={n}: nullifier region ascending (canonical, limb 0 most significant)",
                z3.And([lex_le(Pv.outn[i], Pv.outn[i + 1]) for i in range(n - 1)]))
    s.holds(f"N={n}: nullifier region is a permutation of per-slot (real ? nullifier : H(H(preimage)))",
            z3.Or([z3.And([eq4(Pv.outn[k], Pv.sel[pi[k]]) for k in range(n)]) for pi in itertools.permutations(range(n))]))
    return s


def c07_only_if(Pv, tier, timeout_s=300):
    n = Pv.n
    s = Session(f"C07 N={n}", Pv.base(), timeout_s=timeout_s, verbose=False)
    s.sat(f"N={n}: vacuity, wrapper satisfiable")
    for nm, part in Pv.A_parts.items():
        s.holds(f"N={n}: satisfiable only if {nm}", part)
    return s


def c07_if(Pv, tier, timeout_s=300):
    """'if' direction: every child vector satisfying A(x) (and the C01 leaf guarantees) has a witness"""
    n = Pv.n
    s = completeness(Pv.sx, f"C07 N={n}", f"N={n}: compatible + replay-free + sums < 2^32  =>  the wrapper is satisfiable",
                     Pv.A, extra=Pv.precond() + Pv.sp.axioms(), timeout_s=timeout_s)
    return s


def c08(Pv, tier, timeout_s=300):
    n = Pv.n
    s = Session(f"C08 N={n}", Pv.base(), timeout_s=timeout_s, verbose=False)
    pis = Pv.pis
    child = Pv.child
    s.sat(f"N={n}: vacuity, satisfiable with a real slot paying a positive amount", Pv.real[0], child[0][O1] > 0)
    s.sat(f"N={n}: vacuity, satisfiable with a dummy slot carrying a non-zero amount and account", Pv.dummy[0], child[0][O1] > 0, child[0][E1] > 0)
    out_sum = z3.Sum([pis[8 + 5 * k] for k in range(2 * n)])
    real_sum = z3.Sum([z3.If(Pv.real[i], child[i][O1] + child[i][O2], 0) for i in range(n)])
    s.holds(f"N={n}: sum of output exit amounts = sum of both outputs over real slots (integers)", out_sum == real_sum)
    for k in range(2 * n):
        acct = pis[8 + 5 * k + 1: 8 + 5 * k + 5]
        sent = z3.Sum([z3.If(z3.And(Pv.real[i], eq4(child[i][ea:ea + 4], acct)), child[i][oa], 0)
                       for i in range(n) for (ea, oa) in ((E1, O1), (E2, O2))])
        s.holds(f"N={n}: non-zero output slot {k} carries exactly the total real slots sent to its account",
                z3.Implies(pis[8 + 5 * k] != 0, pis[8 + 5 * k] == sent))
    return s


# ----------------------------------------------------------------------------- public wrapper
class Pub:
    def __init__(self, ir, m, n, prefix="", share_vars=None):
        self.ir, self.m, self.n = ir, m, n
        names = [f"child_{i}" for i in range(m)] + ["addr"]
        t0 = time.time()
        self.sx = symx.SymX(ir, inputs=names, prefix=prefix, share_vars=share_vars)
        self.build_s = time.time() - t0
        I = self.sx.named_int
        self.child = [I(f"child_{i}") for i in range(m)]
        self.addr = I("addr")
        self.pis = [t.as_int() for t in self.sx.pis()]
        self.L = 21 * n + 8
        child = self.child
        self.dummy = [eq4(c[3:7], [0] * 4) for c in child]
        self.real = [z3.Not(d) for d in self.dummy]

        def first_real(lo, width=1):
            e = [z3.IntVal(0)] * width
            for i in reversed(range(m)):
                e = [z3.If(self.real[i], child[i][lo + j], e[j]) for j in range(width)]
            return e
        self.asset_ref = first_real(1)[0]
        self.fee_ref = first_real(2)[0]
        self.bh_ref = first_real(3, 4)
        self.bn_ref = first_real(7)[0]
        self.A_parts = {
            "real inners share one block hash": z3.And([z3.Implies(self.real[i], eq4(child[i][3:7], self.bh_ref)) for i in range(m)]),
            "real inners share one asset id": z3.And([z3.Implies(self.real[i], child[i][1] == self.asset_ref) for i in range(m)]),
            "real inners share one fee": z3.And([z3.Implies(self.real[i], child[i][2] == self.fee_ref) for i in range(m)]),
        }
        self.A = z3.And(list(self.A_parts.values()))
        exp = list(self.addr) + [self.asset_ref, self.fee_ref] + self.bh_ref + [self.bn_ref, z3.IntVal(2 * n * m)]
        for i in range(m):
            for k in range(2 * n * 5):
                exp.append(z3.If(self.dummy[i], 0, child[i][8 + k]))
        ns = 8 + 10 * n
        for i in range(m):
            for k in range(4 * n):
                exp.append(z3.If(self.dummy[i], 0, child[i][ns + k]))
        self.expected = exp

    def stats(self):
        sx = self.sx
        return dict(rows=len(sx.rows), classes=len(sx.terms), assertions=len(sx.asserts),
                    abstracted_products=sx.abstracted, **sx.stats, encode_s=round(self.build_s, 2))

    def base(self):
        return list(self.sx.asserts)


def c12(Pb, tier, timeout_s=120):
    m, n = Pb.m, Pb.n
    tag = f"M={m},N={n}"
    s = Session(f"C12 {tag}", Pb.base(), timeout_s=timeout_s, verbose=False)
    s.sat(f"{tag}: vacuity, wrapper satisfiable")
    s.sat(f"{tag}: vacuity, satisfiable with a real inner", Pb.real[0])
    s.sat(f"{tag}: vacuity, satisfiable with a dummy inner carrying non-zero slots", Pb.dummy[m - 1], Pb.child[m - 1][8] > 0)
    explen = 12 + 10 * n * m + 4 * n * m
    s.results.append(Result(f"{tag}: output length = 12 + 14NM", "holds", "HOLDS" if len(Pb.pis) == explen == len(Pb.expected) else "CEX", 0.0))
    s.holds(f"{tag}: header = address, asset, fee, block hash, block number of first real inner (or 0), 2NM",
            z3.And([Pb.pis[k] == Pb.expected[k] for k in range(12)]))
    for i in range(m):
        lo = 12 + i * 10 * n
        s.holds(f"{tag}: inner {i} owns exit segment {i} (forwarded in order, zeroed if the inner is all-dummy)",
                z3.And([Pb.pis[k] == Pb.expected[k] for k in range(lo, lo + 10 * n)]))
    for i in range(m):
        lo = 12 + m * 10 * n + i * 4 * n
        s.holds(f"{tag}: inner {i} owns nullifier segment {i} (forwarded in order, zeroed if all-dummy)",
                z3.And([Pb.pis[k] == Pb.expected[k] for k in range(lo, lo + 4 * n)]))
    return s


def c13_if(Pb, tier, timeout_s=120):
    tag = f"M={Pb.m},N={Pb.n}"
    return completeness(Pb.sx, f"C13 {tag}", f"{tag}: real inners agree on block hash, asset, fee  =>  the wrapper is satisfiable", Pb.A, timeout_s=timeout_s)


def c13_only_if(Pb, tier, timeout_s=120):
    tag = f"M={Pb.m},N={Pb.n}"
    s = Session(f"C13 {tag}", Pb.base(), timeout_s=timeout_s, verbose=False)
    s.sat(f"{tag}: vacuity, wrapper satisfiable")
    s.sat(f"{tag}: vacuity, satisfiable with dummy inners disagreeing on asset/fee with the real ones",
          Pb.dummy[Pb.m - 1], Pb.child[Pb.m - 1][1] != Pb.asset_ref, Pb.child[Pb.m - 1][2] != Pb.fee_ref)
    if Pb.m >= 2:
        s.sat(f"{tag}: vacuity, satisfiable with real inners differing in block number, slots and nullifiers",
              Pb.real[0], Pb.real[1], Pb.child[0][7] != Pb.child[1][7], Pb.child[0][8] != Pb.child[1][8],
              Pb.child[0][8 + 10 * Pb.n] != Pb.child[1][8 + 10 * Pb.n])
    for nm, part in Pb.A_parts.items():
        s.holds(f"{tag}: satisfiable only if {nm}", part)
    return s


# ----------------------------------------------------------------------------- C09 / C10
def _slot_eq(a, b):
    return z3.And([x == y for x, y in zip(a, b)])


def c09_circuit(Pv, tier, timeout_s=300):
    """Circuit-level facts of C09: output = O(x) (re-proved here so C09 does not lean on another check's
    run), zero slots, and direct two-witness dummy-content independence."""
    n = Pv.n
    s = c06(Pv, tier, timeout_s=timeout_s, part="ab")
    pis = Pv.pis
    slot = lambda k: pis[8 + 5 * k: 13 + 5 * k]
    for k in range(2 * n):
        s.holds(f"N={n}: duplicate-account slot {k} is the all-zero slot", z3.Implies(z3.Not(Pv.first_occ[k]), _slot_eq(slot(k), [0] * 5)))
        i = k // 2
        zero_acct_total = z3.Sum([z3.If(eq4(a, [0] * 4), m, 0) for (a, m) in Pv.slots])
        s.holds(f"N={n}: dummy slot {k} exposes the zero account and no amount of its own "
                f"(amount = total real slots paid to the zero account if it is the first zero-account slot, else 0)",
                z3.Implies(Pv.dummy[i], z3.And(eq4(slot(k)[1:], [0] * 4),
                                               slot(k)[0] == z3.If(Pv.first_occ[k], zero_acct_total, 0))))
        s.holds(f"N={n}: LITERAL dummy slot {k} is the all-zero slot", z3.Implies(Pv.dummy[i], _slot_eq(slot(k), [0] * 5)))
        s.holds(f"N={n}: dummy slot {k} is the all-zero slot when no real slot pays the zero account",
                z3.Implies(z3.And(Pv.dummy[i], z3.And([z3.Implies(Pv.real[j // 2], z3.Or(z3.Not(eq4(Pv.slots[j][0], [0] * 4)), Pv.slots[j][1] == 0))
                                                       for j in range(2 * n)])), _slot_eq(slot(k), [0] * 5)))
    # direct self-composition: copy B differs from A only inside dummy slots (everything but asset id and the zero block hash)
    ir = Pv.ir
    share = {}
    for i in range(n):
        for c in ir["named"][f"pre_{i}"]:
            share[c] = Pv.sx.freevars[c]
    B = Priv(ir, n, prefix="B_", share_vars=share)
    link = []
    for i in range(n):
        same = z3.And([a == b for a, b in zip(Pv.child[i], B.child[i])])
        link.append(z3.If(Pv.real[i], same, z3.And(eq4(B.child[i][BH:BH + 4], [0] * 4), B.child[i][ASSET] == Pv.child[i][ASSET])))
    s2 = Session(f"C09 N={n}", Pv.base() + B.base() + link, timeout_s=timeout_s, verbose=False)
    s2.sat(f"N={n}: vacuity, two accepted batches differing only inside a dummy slot exist", Pv.dummy[0], B.child[0][E1] != Pv.child[0][E1], B.child[0][NUL] != Pv.child[0][NUL], B.child[0][O1] != Pv.child[0][O1])
    s2.holds(f"N={n}: changing nullifier/exits/amounts/fee/block number of dummy slots never changes the public output (two-witness query)",
             z3.And([a == b for a, b in zip(Pv.pis, B.pis)]))
    s.results += s2.results
    return s


def c09_spec(n, timeout_s=600):
    """Spec-level: O(pi x) vs O(x) for every slot permutation pi (nullifier region and header equal,
    exit groups equal as a multiset)."""
    class FakeSx:
        P2 = [z3.Function(f"P2_{i}", *([z3.IntSort()] * 12), z3.IntSort()) for i in range(12)]
    sp = Sponge(FakeSx)
    child = [[z3.Int(f"s_child_{i}_{j}") for j in range(21)] for i in range(n)]
    pre = [[z3.Int(f"s_pre_{i}_{j}") for j in range(4)] for i in range(n)]
    dom = [z3.And(v >= 0, v < P) for c in child + pre for v in c]
    X = PrivSpec(n, child, pre, sp)
    outX = [[z3.Int(f"s_out_{i}_{j}") for j in range(4)] for i in range(n)]

    def region(sel, out):
        return z3.And(z3.And([lex_le(out[i], out[i + 1]) for i in range(n - 1)] or [z3.BoolVal(True)]),
                      z3.Or([z3.And([eq4(out[k], sel[pi[k]]) for k in range(n)]) for pi in itertools.permutations(range(n))]))
    # real slots of one block hash carry one block number: C03 binds the number inside the hashed header
    # preimage, so two different numbers under one block hash would be a Poseidon2 collision (assumption)
    bn_link = [z3.Implies(z3.And(X.real[i], X.real[j], eq4(child[i][BH:BH + 4], child[j][BH:BH + 4])), child[i][BN] == child[j][BN])
               for i in range(n) for j in range(i + 1, n)]
    s = Session(f"C09 spec N={n}", dom + [X.A] + bn_link + [region(X.sel, outX)] + [z3.And(o >= 0, o < P) for r in outX for o in r] + sp.axioms(),
                timeout_s=timeout_s, verbose=False)
    s.sat(f"spec N={n}: vacuity, accepted batch with a real and (N>1) a dummy slot", X.real[0], *( [X.dummy[n - 1]] if n > 1 else []))
    for pi in itertools.permutations(range(n)):
        if list(pi) == list(range(n)):
            continue
        Y = PrivSpec(n, [child[pi[i]] for i in range(n)], [pre[pi[i]] for i in range(n)], sp)
        outY = [[z3.Int(f"s_outY_{i}_{j}") for j in range(4)] for i in range(n)]
        s.solver.push()
        s.solver.add(region(Y.sel, outY), *[z3.And(o >= 0, o < P) for r in outY for o in r], *sp.axioms())
        tag = f"spec N={n}, slot permutation {pi}"
        s.holds(f"{tag}: header unchanged", z3.And([a == b for a, b in zip(X.header, Y.header)]))
        s.holds(f"{tag}: nullifier region unchanged", z3.And([eq4(a, b) for a, b in zip(outX, outY)]))
        cnt = lambda slots, t: z3.Sum([z3.If(_slot_eq(sl, t), 1, 0) for sl in slots])
        s.holds(f"{tag}: exit slots equal as a multiset (groups only move with their first-occurrence slot)",
                z3.And([cnt(X.exp_slots, t) == cnt(Y.exp_slots, t) for t in X.exp_slots + Y.exp_slots]))
        s.holds(f"{tag}: acceptance condition unchanged", Y.A)
        s.solver.pop()
    return s


def c10_priv(Pv, tier, timeout_s=300):
    n = Pv.n
    ir = Pv.ir
    share = {}
    for i in range(n):
        for nm in (f"child_{i}", f"pre_{i}"):
            for c in ir["named"][nm]:
                share[c] = Pv.sx.freevars[c]
    B = Priv(ir, n, prefix="B_", share_vars=share)
    s = Session(f"C10 priv N={n}", Pv.sx.asserts + B.sx.asserts + Pv.precond(), timeout_s=timeout_s, verbose=False)
    s.sat(f"private wrapper N={n}: vacuity, two witnesses over the same child inputs and preimages exist")
    s.holds(f"private wrapper N={n}: every two satisfying witnesses over the same child inputs/preimages expose the same public output",
            z3.And([a == b for a, b in zip(Pv.pis, B.pis)]))
    s.copy_b = B.sx
    return s


def c10_pub(Pb, tier, timeout_s=120):
    m, n, ir = Pb.m, Pb.n, Pb.ir
    share = {}
    for nm in [f"child_{i}" for i in range(m)] + ["addr"]:
        for c in ir["named"][nm]:
            share[c] = Pb.sx.freevars[c]
    B = Pub(ir, m, n, prefix="B_", share_vars=share)
    s = Session(f"C10 pub M={m},N={n}", Pb.sx.asserts + B.sx.asserts, timeout_s=timeout_s, verbose=False)
    s.sat(f"public wrapper M={m},N={n}: vacuity, two witnesses over the same inner inputs/address exist")
    s.holds(f"public wrapper M={m},N={n}: every two satisfying witnesses over the same inner inputs/address expose the same public output",
            z3.And([a == b for a, b in zip(Pb.pis, B.pis)]))
    s.copy_b = B.sx
    return s


# ----------------------------------------------------------------------------- C36 (two layers chained)
def c36(ir_priv, ir_pub, m, n, timeout_s=600):
    inners = [Priv(ir_priv, n, prefix=f"I{i}_") for i in range(m)]
    Pb = Pub(ir_pub, m, n, prefix="O_")
    base = list(Pb.sx.asserts)
    for i, Pv in enumerate(inners):
        base += Pv.base()
        base += [a == b for a, b in zip(Pb.child[i], Pv.pis)]
    tag = f"M={m},N={n}"
    s = Session(f"C36 {tag}", base, timeout_s=timeout_s, verbose=False)
    any_real = [z3.Or(Pv.real) for Pv in inners]
    s.sat(f"{tag}: vacuity, chained circuits satisfiable with a real leaf in inner 0 and an all-dummy last inner",
          inners[0].real[0], z3.Not(any_real[m - 1]) if m > 1 else z3.BoolVal(True))
    pis = Pb.pis
    out_sum = z3.Sum([pis[12 + 5 * k] for k in range(2 * n * m)])
    leaf_sum = z3.Sum([z3.If(Pv.real[j], Pv.child[j][O1] + Pv.child[j][O2], 0) for Pv in inners for j in range(n)])
    s.holds(f"{tag}: public exit amounts sum to the total output of the real leaves (integers)", out_sum == leaf_sum)
    ns = 12 + 10 * n * m
    for i, Pv in enumerate(inners):
        seg = [pis[ns + 4 * (i * n + k): ns + 4 * (i * n + k) + 4] for k in range(n)]
        s.holds(f"{tag}: inner {i} real => its nullifier segment is a permutation of its leaves' (real ? nullifier : H(H(preimage)))",
                z3.Implies(any_real[i], z3.Or([z3.And([eq4(seg[k], Pv.sel[pi[k]]) for k in range(n)]) for pi in itertools.permutations(range(n))])))
        s.holds(f"{tag}: padding inner {i} (no real leaf) adds nothing: zero exit segment and zero nullifier segment",
                z3.Implies(z3.Not(any_real[i]),
                           z3.And([pis[12 + 10 * n * i + k] == 0 for k in range(10 * n)] + [v == 0 for sg in seg for v in sg])))
    return s, inners, Pb
