"""C01-C04: leaf circuit checks (CSX engine)."""
import json
import os
import time

import z3

import csxlib
import leaf
from csxlib import P
from registry import register, finish

LEAF_FUNCS = [
    "wormhole_circuit::circuit::circuit_logic::WormholeCircuit::new (full leaf circuit, built from /repo on this run)",
    "ZkMerkleProofData::circuit", "UnspendableAccount::circuit", "Nullifier::conditional_hash_binding",
    "BlockHeader::circuit_without_hash_binding + conditional_block_hash_binding", "connect_shared_targets",
    "zk_circuits_common::gadgets::{is_const_less_than, enforce_target_less_than_const}",
    "plonky2 gates as built: Arithmetic, BaseSum<2>, Constant, PublicInput, Poseidon2 (UF), Poseidon (UF)",
]
LEAF_BOUNDS = {
    "field": "exact Goldilocks p = 2^64-2^32+1 (integer theory, no width reduction)",
    "circuit": "the complete built leaf circuit (MAX_DEPTH 16), every wire of every row symbolic",
    "hash": "Poseidon2/Poseidon permutations uninterpreted (any function F^12->F^12 with canonical outputs)",
    "outside": "FRI/PLONK soundness (a verifying proof implies a satisfying wire assignment); properties of the concrete permutation",
}
LEAF_ASSUME = [
    "gate semantics of qp-plonky2 1.5.5 as modelled in csx/symx.py (validated this run against honest witnesses from the real generators)",
    "emitter reconstruction of rows/constants/copy classes from CircuitData public fields",
    "z3 (Int theory + UF) verdicts",
]


def leaf_replay(pid, L, res):
    """Concretise a solver model into real inputs: every hash-derived quantity that the model keeps
    consistent with the spec (under the uninterpreted hash) is recomputed with the real hash by the
    emitter; the others keep the model's value (they are the violation). Then prove + verify."""
    m = res.model["__model__"]
    ir, sx = L.ir, L.sx
    ev = lambda e: int(str(m.eval(e, model_completion=True))) % P
    named = {}
    for n in ir["named"]:
        named[n] = [ev(sx.terms[c].as_int()) for c in ir["named"][n]]
    sp = csxlib.Sponge(sx)
    salt_n = ir["consts"]["salt_nullifier"]; salt_w = ir["consts"]["salt_wormhole"]
    secret = L.I("null_secret")
    tb = lambda e: z3.is_true(m.eval(e, model_completion=True))
    hdr = L.I("parent_hash") + L.I("block_number") + L.I("state_root") + L.I("extrinsics_root") + L.I("zk_tree_root") + L.I("digest")
    flags = {
        # consistency with what the CIRCUIT hashes (its own sub-circuit inputs), which is what the emitter recomputes with the real hash
        "to_account": tb(csxlib.eq4(L.to, sp.hash(sp.hash(salt_w + L.I("ua_secret"))))),
        "nullifier": tb(csxlib.eq4(L.nullifier, sp.hash(sp.hash(salt_n + secret + L.I("null_tc"))))),
        "tree_root_eq_root": tb(csxlib.eq4(L.I("zk_tree_root"), L.root)),
        "block_hash": tb(csxlib.eq4(L.bh, sp.hash(hdr))),
        "secret_shared": tb(csxlib.eq4(L.I("ua_secret"), secret)),
        "tc_shared": tb(z3.And([a == b for a, b in zip(L.I("null_tc"), L.tc)])),
        "ua_is_to": tb(csxlib.eq4(L.I("ua_account"), L.to)),
    }
    # a dummy statement stays a dummy: its (unenforced) nullifier/header/root values keep the model's values
    if tb(L.spec_dummy):
        for k in ("nullifier", "block_hash", "tree_root_eq_root"):
            flags[k] = False
        flags["model_is_dummy"] = True
    cuts, _why = leaf.find_cuts(L)
    cut16 = cuts[16] if cuts else []
    if cuts:
        flags["root_eq_cut16"] = tb(csxlib.eq4(L.root, [sx.terms[c].as_int() for c in cut16])) and not flags.get("model_is_dummy", False)
    # adversarial pass: additionally pin every hash-independent wire the model chose (hint wires included)
    free = csxlib.model_all_classes(sx, m)
    assigns = [
        {"label": "repaired-honest", "mode": "leaf_repair", "named": named, "flags": flags, "cut16": cut16},
        {"label": "repaired-adversarial", "mode": "leaf_repair_adv", "named": named, "flags": flags, "cut16": cut16, "classes": free},
    ]
    if not flags.get("model_is_dummy"):
        # third variant: where the model's public hash values DEVIATE from the (uninterpreted) hash of the circuit's own inputs,
        # transplant the deviation onto the real hash (a relation such as 'limb differences sum to zero' survives the repair)
        h_null = sp.hash(sp.hash(salt_n + secret + L.I("null_tc")))
        h_bh = sp.hash(hdr)
        deltas = {}
        if not flags["nullifier"]:
            deltas["nullifier"] = [(ev(a) - ev(b)) % P for a, b in zip(L.nullifier, h_null)]
        if not flags["block_hash"]:
            deltas["block_hash"] = [(ev(a) - ev(b)) % P for a, b in zip(L.bh, h_bh)]
        if deltas:
            assigns.append({"label": "repaired-with-deviation", "mode": "leaf_repair", "named": named, "flags": flags, "cut16": cut16, "deltas": deltas})
            assigns.append({"label": "repaired-with-deviation-adversarial", "mode": "leaf_repair_adv", "named": named, "flags": flags, "cut16": cut16, "classes": free, "deltas": deltas})
    out = csxlib.replay(pid, "leaf", assigns)
    path = csxlib.replay_path(pid)
    json.dump({"query": res.name, "assignments": assigns, "replay": out}, open(path, "w"))
    ok = any(o.get("accepted") for o in out)
    what = f"{res.name}; " + "; ".join(f"{o.get('label')}: {o.get('detail')}" for o in out)
    return ok, path, what


def run_leaf(pid, tier, body):
    t0 = time.time()
    build_s = csxlib.build_emitter()
    ir = csxlib.emit(pid, ["leaf"])["leaf"]
    L = leaf.Leaf(ir)
    print(f"[{pid}] leaf circuit from /repo: {L.stats()}  (emitter build {build_s:.1f}s)", flush=True)
    nval, vfails = csxlib.validate_witnesses(L.sx, ir)
    print(f"[{pid}] translator validation: {nval}/{len(ir['witnesses'])} honest witnesses of the real generators satisfy the encoding", flush=True)
    inconcl = [f"translator validation: {lbl}: {why}" for lbl, why in vfails]
    if nval == 0:
        inconcl.append("translator validation: no honest witness of the real generators is available on this tree")
    sessions = body(L, tier)
    results = [r for s in sessions for r in s.results]
    replays = {}
    # honest inputs (built natively by csx-emit/src/leafgen.rs: canonical digests, valid 4-ary path, fee rule) that the REAL
    # witness filler / generators reject: a concrete completeness failure at the prover boundary, reported under C05 only
    genfails = [w for w in ir.get("witnesses", []) if w["label"].endswith(":GENFAIL")]
    for w in genfails:
        aux = w["aux"] if isinstance(w["aux"], dict) else json.loads(w["aux"])
        print(f"[{pid}] real leaf witness filler rejects honest input '{w['label'][:-8]}': {aux.get('genfail')}", flush=True)
        if pid == "C05":
            name = f"honest input '{w['label'][:-8]}' is accepted by the real witness filler/generators"
            r = csxlib.Result(name, "holds", "CEX", 0.0)
            path = csxlib.replay_path(pid)
            json.dump({"query": name, "honest_input": aux.get("inputs"), "real_code_error": aux.get("genfail"),
                       "reproduce": f"csx-emit emit <dir> {csxlib.env_seed()} - leaf  (label {w['label']})"}, open(path, "w"))
            sessions[0].results.append(r)
            results.append(r)
            replays[name] = (True, path, f"{name}: real code returned: {aux.get('genfail')}")
    for r in results:
        if r.verdict == "CEX" and r.model and r.name not in replays:
            try:
                replays[r.name] = leaf_replay(pid, L, r)
            except Exception as e:  # replay machinery failure -> inconclusive, never a violation
                replays[r.name] = (False, "", f"replayer failed: {e}")
    rc, known = finish(pid, results, replays, inconcl)
    csxlib.write_evidence(pid, tier, t0, sessions, LEAF_FUNCS, LEAF_BOUNDS, LEAF_ASSUME,
                          extra={"encoding": L.stats(), "states": len(L.sx.terms), "transitions": len(L.sx.asserts)},
                          traces_validated=nval, violations=1 if rc == 1 else 0, known=known)
    print(f"[{pid}] {sum(1 for r in results if r.verdict in ('HOLDS', 'REACHABLE'))}/{len(results)} queries discharged, "
          f"solver {sum(r.secs for r in results):.1f}s, wall {time.time() - t0:.1f}s, exit {rc}")
    return rc


@register("C01")
def c01(pid, tier):
    return run_leaf(pid, tier, leaf.c01)


@register("C02")
def c02(pid, tier):
    return run_leaf(pid, tier, leaf.c02)


@register("C03")
def c03(pid, tier):
    return run_leaf(pid, tier, leaf.c03)


@register("C04")
def c04(pid, tier):
    return run_leaf(pid, tier, leaf.c04)


@register("C05")
def c05(pid, tier):
    return run_leaf(pid, tier, leaf.c05)
