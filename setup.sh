#!/bin/sh
# Builds the framework from files on disk only (offline). The checks rebuild incrementally against
# /repo's current working tree on every run; this only warms the caches.
set -e
cd "$(dirname "$0")"
export CARGO_NET_OFFLINE=true
[ -f csx-emit/Cargo.lock ] || cp /repo/Cargo.lock csx-emit/Cargo.lock
mkdir -p work evidence
(cd csx-emit && RUSTFLAGS="--cfg quantus_network_qp_zk_circuits_verif" CARGO_TARGET_DIR=../work/target-emit cargo build --release --offline -q)
echo "setup ok"
