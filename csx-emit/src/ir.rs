//! CircuitData -> gate-level JSON IR (uses only public fields of qp-plonky2 1.5.5).
use plonky2::field::types::{Field, PrimeField64};
use plonky2::iop::generator::generate_partial_witness;
use plonky2::iop::target::Target;
use plonky2::iop::witness::PartialWitness;
use plonky2::plonk::circuit_data::CircuitData;
use std::collections::BTreeMap;
use std::fmt::Write as _;
use zk_circuits_common::circuit::{C, D, F};

pub struct Witness {
    pub label: String,
    pub vals: BTreeMap<usize, u64>,
    /// extra native reference values (JSON object text), e.g. the native Merkle fold
    pub aux: String,
}

/// Run the real plonky2 witness generators on `pw` and return class -> value.
pub fn honest_witness(
    data: &CircuitData<F, C, D>,
    pw: PartialWitness<F>,
    label: &str,
) -> Result<Witness, String> {
    let pwit = generate_partial_witness(pw, &data.prover_only, &data.common)
        .map_err(|e| format!("witness generation failed: {e}"))?;
    let mut vals = BTreeMap::new();
    for (i, v) in pwit.values.iter().enumerate() {
        if let Some(v) = v {
            if pwit.representative_map[i] == i {
                vals.insert(i, v.to_canonical_u64());
            }
        }
    }
    Ok(Witness { label: label.to_string(), vals, aux: "{}".to_string() })
}

pub fn class_of(data: &CircuitData<F, C, D>, t: Target) -> usize {
    let c = &data.common;
    data.prover_only.representative_map[t.index(c.config.num_wires, c.degree())]
}

pub fn emit(
    name: &str,
    data: &CircuitData<F, C, D>,
    named: &[(String, Vec<Target>)],
    consts: &[(String, Vec<u64>)],
    witnesses: &[Witness],
) -> String {
    emit_filtered(name, data, named, consts, witnesses, "")
}

/// Like `emit`, but only rows whose gate id starts with `only_gate` are written out in full (the
/// per-gate row histogram still covers every row). Used for the full recursive circuits, where only
/// the constant gates and the copy classes of the verifier-key wires are needed.
pub fn emit_filtered(
    name: &str,
    data: &CircuitData<F, C, D>,
    named: &[(String, Vec<Target>)],
    consts: &[(String, Vec<u64>)],
    witnesses: &[Witness],
    only_gate: &str,
) -> String {
    let c = &data.common;
    let n = c.degree();
    let nw = c.config.num_wires;
    let nr = c.config.num_routed_wires;
    let rep = &data.prover_only.representative_map;
    let polys = &data.prover_only.constants_sigmas_commitment.polynomials;
    let num_sel = c.selectors_info.num_selectors();
    let num_consts_total = c.num_constants;
    let consts_eval: Vec<Vec<F>> = polys[..num_consts_total]
        .iter()
        .map(|p| p.clone().fft().values)
        .collect();
    let unused = F::from_canonical_usize(u32::MAX as usize);
    let mut s = String::new();
    write!(
        s,
        "{{\"name\":{:?},\"degree\":{},\"num_wires\":{},\"num_routed\":{},\"num_selectors\":{},\"num_lookup_sel\":{},\"num_gate_instances\":{},\"gate_types\":[",
        name, n, nw, nr, num_sel, c.num_lookup_selectors, c.gates.len()
    )
    .unwrap();
    for (i, g) in c.gates.iter().enumerate() {
        if i > 0 {
            s.push(',');
        }
        write!(s, "{:?}", g.0.id()).unwrap();
    }
    s.push_str("],\"gate_num_constraints\":[");
    for (i, g) in c.gates.iter().enumerate() {
        if i > 0 {
            s.push(',');
        }
        write!(s, "{}", g.0.num_constraints()).unwrap();
    }
    s.push_str("],\"rows\":[");
    let mut hist = vec![0usize; c.gates.len()];
    let mut extra: Vec<(usize, u64)> = vec![];
    let mut wrote = false;
    for r in 0..n {
        let mut gi: Option<usize> = None;
        for j in 0..num_sel {
            let v = consts_eval[j][r];
            if v != unused {
                assert!(gi.is_none(), "row {r} has two selectors set");
                gi = Some(v.to_canonical_u64() as usize);
            }
        }
        let gi = gi.expect("row without gate");
        let g = &c.gates[gi];
        let nc = g.0.num_constants();
        let base = num_sel + c.num_lookup_selectors;
        let kc: Vec<u64> = (0..nc)
            .map(|k| consts_eval[base + k][r].to_canonical_u64())
            .collect();
        let used_wires = g.0.num_wires();
        let reps: Vec<usize> = (0..used_wires).map(|col| rep[r * nw + col]).collect();
        hist[gi] += 1;
        // gates may expose spare constant slots on routed wires (e.g. RandomAccessGate): wire == constant
        for (ci, wi) in g.0.extra_constant_wires() {
            extra.push((rep[r * nw + wi], consts_eval[base + ci][r].to_canonical_u64()));
        }
        if !only_gate.is_empty() {
            let id = format!("{:?}", g.0.id());
            let id = id.trim_matches('"');
            if !only_gate.split('|').any(|p| id.starts_with(p)) {
                continue;
            }
        }
        if wrote {
            s.push(',');
        }
        wrote = true;
        write!(s, "{{\"g\":{},\"k\":{:?},\"w\":{:?}}}", gi, kc, reps).unwrap();
    }
    s.push_str("],\"row_histogram\":");
    write!(s, "{:?}", hist).unwrap();
    s.push_str(",\"extra_constants\":[");
    for (j, (cl, v)) in extra.iter().enumerate() {
        if j > 0 {
            s.push(',');
        }
        write!(s, "[{},{}]", cl, v).unwrap();
    }
    s.push(']');
    s.push_str(",\"public_inputs\":[");
    for (i, t) in data.prover_only.public_inputs.iter().enumerate() {
        if i > 0 {
            s.push(',');
        }
        write!(s, "{}", rep[t.index(nw, n)]).unwrap();
    }
    s.push_str("],\"named\":{");
    for (i, (name, ts)) in named.iter().enumerate() {
        if i > 0 {
            s.push(',');
        }
        let v: Vec<usize> = ts.iter().map(|t| rep[t.index(nw, n)]).collect();
        write!(s, "{:?}:{:?}", name, v).unwrap();
    }
    s.push_str("},\"consts\":{");
    for (i, (name, vs)) in consts.iter().enumerate() {
        if i > 0 {
            s.push(',');
        }
        write!(s, "{:?}:{:?}", name, vs).unwrap();
    }
    s.push_str("},\"witnesses\":[");
    for (i, w) in witnesses.iter().enumerate() {
        if i > 0 {
            s.push(',');
        }
        write!(s, "{{\"label\":{:?},\"aux\":{},\"vals\":{{", w.label, w.aux).unwrap();
        for (j, (k, v)) in w.vals.iter().enumerate() {
            if j > 0 {
                s.push(',');
            }
            write!(s, "\"{}\":{}", k, v).unwrap();
        }
        s.push_str("}}");
    }
    s.push_str("]}");
    s
}
