//! `csx-emit cfgrun <out.json>`: hands configs that each fail exactly ONE clause of the documented structural
//! policy to the three REAL public circuit constructors (`WormholeCircuit::new`, `PrivateBatchCircuit::new`,
//! `PublicBatchCircuit::new`) under `catch_unwind` and records ok / err / panicked for each. The children of the
//! two wrappers are constraint-free stand-ins with the right public-input count. Used to confirm a solver
//! counterexample of C28's "policy before any build" query on the real code.
use plonky2::plonk::circuit_builder::CircuitBuilder;
use plonky2::plonk::circuit_data::CircuitConfig;
use serde_json::json;
use wormhole_aggregator::private_batch::circuit::constants::aggregated_output as ao;
use zk_circuits_common::circuit::{C, D, F};

fn failing() -> Vec<(&'static str, CircuitConfig)> {
    let base = CircuitConfig::standard_recursion_config;
    let mut v = Vec::new();
    let mut c = base(); c.num_challenges = 0; v.push(("num_challenges=0", c));
    let mut c = base(); c.security_bits = 0; v.push(("security_bits=0", c));
    let mut c = base(); c.fri_config.num_query_rounds = 0; v.push(("num_query_rounds=0", c));
    let mut c = base(); c.num_wires = 134; v.push(("num_wires=134", c));
    let mut c = base(); c.num_routed_wires = 36; v.push(("num_routed_wires=36", c));
    let mut c = base(); c.num_routed_wires = c.num_wires + 1; v.push(("num_routed_wires=num_wires+1", c));
    let mut c = base(); c.max_quotient_degree_factor = 6; v.push(("max_quotient_degree_factor=6", c));
    let mut c = base(); c.fri_config.rate_bits = 9; v.push(("rate_bits=9", c));
    let mut c = base(); c.fri_config.cap_height = 9; v.push(("cap_height=9", c));
    let mut c = base(); c.max_quotient_degree_factor = 8; c.fri_config.rate_bits = 2; v.push(("rate_bits=2<log2ceil(8)", c));
    let mut c = base(); c.max_quotient_degree_factor = 9; c.fri_config.rate_bits = 3; v.push(("rate_bits=3<log2ceil(9)", c));
    v
}

fn standin(len: usize) -> plonky2::plonk::circuit_data::CircuitData<F, C, D> {
    let mut b = CircuitBuilder::<F, D>::new(CircuitConfig::standard_recursion_config());
    let pis = b.add_virtual_targets(len);
    b.register_public_inputs(&pis);
    b.build::<C>()
}

fn outcome<T>(r: std::thread::Result<anyhow::Result<T>>) -> &'static str {
    match r {
        Ok(Ok(_)) => "ok",
        Ok(Err(_)) => "err",
        Err(_) => "panicked",
    }
}

pub fn run(args: &[String]) {
    std::panic::set_hook(Box::new(|_| {}));
    let leaf = standin(qp_wormhole_inputs::PUBLIC_INPUTS_FELTS_LEN);
    let inner = standin(ao::pi_len(1));
    let mut rows = Vec::new();
    for (label, cfg) in failing() {
        let policy = if zk_circuits_common::circuit::validate_circuit_config(&cfg).is_ok() { "ok" } else { "err" };
        let c1 = cfg.clone();
        let l = outcome(std::panic::catch_unwind(std::panic::AssertUnwindSafe(|| {
            wormhole_circuit::circuit::circuit_logic::WormholeCircuit::new(c1)
        })));
        let c2 = cfg.clone();
        let p = outcome(std::panic::catch_unwind(std::panic::AssertUnwindSafe(|| {
            wormhole_aggregator::private_batch::circuit::circuit_logic::PrivateBatchCircuit::new(c2, &leaf.common, &leaf.verifier_only, 1)
        })));
        let c3 = cfg.clone();
        let q = outcome(std::panic::catch_unwind(std::panic::AssertUnwindSafe(|| {
            wormhole_aggregator::public_batch::circuit::circuit_logic::PublicBatchCircuit::new(c3, inner.common.clone(), &inner.verifier_only, 1, 1)
        })));
        rows.push(json!({"config": label, "policy": policy, "leaf": l, "private_batch": p, "public_batch": q}));
    }
    std::fs::write(&args[0], json!({"rows": rows}).to_string()).unwrap();
}
