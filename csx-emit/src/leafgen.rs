//! Honest leaf inputs for translator validation: random secrets / amounts / trees of several
//! depths, built with the repository's own native hashing code.
use plonky2::field::types::Field;
use plonky2::hash::poseidon2::Poseidon2Hash;
use plonky2::plonk::config::Hasher;
use qp_wormhole_inputs::PublicCircuitInputs;
use wormhole_circuit::block_header::header::HeaderInputs;
use wormhole_circuit::inputs::{CircuitInputs, PrivateCircuitInputs};
use wormhole_circuit::nullifier::Nullifier;
use wormhole_circuit::unspendable_account::UnspendableAccount;
use zk_circuits_common::circuit::F;
use zk_circuits_common::serialization::{bytes_to_digest, digest_to_bytes as ser_digest};
use zk_circuits_common::utils::{digest_to_bytes, u64_to_felts, BytesDigest};
use zk_circuits_common::zk_merkle::{hash_node_presorted, insert_at_position, ZkMerkleProof};

pub struct Rng(pub u64);
impl Rng {
    pub fn next(&mut self) -> u64 {
        self.0 = self.0.wrapping_add(0x9E3779B97F4A7C15);
        let mut z = self.0;
        z = (z ^ (z >> 30)).wrapping_mul(0xBF58476D1CE4E5B9);
        z = (z ^ (z >> 27)).wrapping_mul(0x94D049BB133111EB);
        z ^ (z >> 31)
    }
    pub fn below(&mut self, n: u64) -> u64 {
        self.next() % n
    }
    pub fn canon_hash(&mut self) -> [u8; 32] {
        const P: u64 = 0xFFFF_FFFF_0000_0001;
        let mut out = [0u8; 32];
        for i in 0..4 {
            let mut v = self.next();
            // exercise boundary limbs now and then
            match self.below(16) {
                0 => v = P - 1,
                1 => v = 0,
                2 => v = 0xFFFF_FFFF,
                _ => {}
            }
            let v = v % P;
            out[i * 8..i * 8 + 8].copy_from_slice(&v.to_le_bytes());
        }
        out
    }
}

fn leaf_hash(to: &[u8; 32], tc: u64, asset: u32, amount: u32) -> [u8; 32] {
    let mut pre = Vec::new();
    pre.extend(bytes_to_digest(to));
    pre.extend(u64_to_felts(tc));
    pre.push(F::from_canonical_u32(asset));
    pre.push(F::from_canonical_u32(amount));
    ser_digest(&Poseidon2Hash::hash_no_pad(&pre).elements)
}

pub fn make(rng: &mut Rng, depth: usize, dummy: bool, edge: u32) -> (CircuitInputs, String) {
    let secret = BytesDigest::try_from(rng.canon_hash()).unwrap();
    let tc = match edge {
        1 => u64::MAX,
        2 => 0,
        _ => rng.next(),
    };
    let ua = digest_to_bytes(UnspendableAccount::from_secret(secret).account_id);
    let asset = if edge == 1 { u32::MAX } else { rng.below(1 << 32) as u32 };
    let input_amount: u32 = match edge {
        1 => u32::MAX,
        2 => 0,
        _ => rng.below(1 << 32) as u32,
    };
    let fee: u32 = match edge {
        1 => 0,
        2 => 10000,
        _ => rng.below(10001) as u32,
    };
    let total = ((input_amount as u128 * (10000 - fee) as u128) / 10000) as u64;
    let (o1, o2) = if dummy {
        (0u32, 0u32)
    } else {
        let o1 = if total == 0 { 0 } else { rng.below(total + 1) };
        let rest = total - o1;
        let o2 = if edge == 1 { rest } else if rest == 0 { 0 } else { rng.below(rest + 1) };
        (o1 as u32, o2 as u32)
    };
    let lh = leaf_hash(&ua, tc, asset, input_amount);
    let sibs: Vec<[[u8; 32]; 3]> =
        (0..depth).map(|_| [rng.canon_hash(), rng.canon_hash(), rng.canon_hash()]).collect();
    let proof = ZkMerkleProof::from_unsorted(0, sibs, lh, [0u8; 32]).expect("from_unsorted");
    let mut cur = lh;
    let limbs = |h: &[u8; 32]| -> Vec<u64> {
        (0..4).map(|i| u64::from_le_bytes(h[i * 8..i * 8 + 8].try_into().unwrap())).collect()
    };
    let mut fold: Vec<Vec<u64>> = vec![limbs(&cur)];
    for (s, p) in proof.siblings.iter().zip(&proof.positions) {
        cur = hash_node_presorted(&insert_at_position(cur, s, *p).unwrap()).unwrap();
        fold.push(limbs(&cur));
    }
    let aux = format!("{{\"fold\":{:?},\"depth\":{},\"dummy\":{}}}", fold, depth, dummy);
    let root = cur;
    let parent = BytesDigest::try_from(rng.canon_hash()).unwrap();
    let state_root = BytesDigest::try_from(rng.canon_hash()).unwrap();
    let ext_root = BytesDigest::try_from(rng.canon_hash()).unwrap();
    let mut digest = [0u8; 110];
    for b in digest.iter_mut() {
        *b = rng.below(256) as u8;
    }
    let block_number = if edge == 1 { u32::MAX } else { rng.below(1 << 32) as u32 };
    let hdr = HeaderInputs::new(
        parent,
        block_number,
        state_root,
        ext_root,
        BytesDigest::try_from(root).unwrap(),
        &digest,
    )
    .unwrap();
    let (block_hash, nullifier, tree_root) = if dummy {
        (
            BytesDigest::try_from([0u8; 32]).unwrap(),
            BytesDigest::try_from(rng.canon_hash()).unwrap(),
            // dummies are exempt from the root binding: use an unrelated root half of the time
            if rng.below(2) == 0 { root } else { rng.canon_hash() },
        )
    } else {
        (hdr.block_hash(), digest_to_bytes(Nullifier::from_preimage(secret, tc).hash), root)
    };
    (CircuitInputs {
        public: PublicCircuitInputs {
            asset_id: asset,
            output_amount_1: o1,
            output_amount_2: o2,
            volume_fee_bps: fee,
            nullifier,
            exit_account_1: BytesDigest::try_from(rng.canon_hash()).unwrap(),
            exit_account_2: BytesDigest::try_from(rng.canon_hash()).unwrap(),
            block_hash,
            block_number,
        },
        private: PrivateCircuitInputs {
            secret: secret.into(),
            transfer_count: tc,
            unspendable_account: ua,
            parent_hash: parent,
            state_root,
            extrinsics_root: ext_root,
            digest,
            input_amount,
            zk_tree_root: tree_root,
            zk_merkle_siblings: proof.siblings.clone(),
            zk_merkle_positions: proof.positions.clone(),
        },
    }, aux)
}

pub fn honest_inputs(seed: u64) -> Vec<(String, CircuitInputs, String)> {
    let mut rng = Rng(seed ^ 0xC5A0_17EA_F000_0001);
    let mut out = vec![];
    let extra = (rng.below(15) + 1) as usize;
    for (depth, dummy, edge) in [
        (0usize, false, 0u32),
        (1, false, 1),
        (3, false, 2),
        (16, false, 0),
        (extra, false, 0),
        (0, true, 0),
        (2, true, 0),
        (16, true, 2),
    ] {
        let (inp, aux) = make(&mut rng, depth, dummy, edge);
        out.push((format!("leaf depth={depth} dummy={dummy} edge={edge}"), inp, aux));
    }
    out
}
