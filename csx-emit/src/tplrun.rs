//! `csx-emit tplrun <scenario.json> <out.json>`: hands a padding template with chosen public inputs to the REAL
//! public constructors that must validate it (`PrivateBatchProver::new` for leaf templates,
//! `PublicBatchProver::new` for private-batch templates). The child circuits are constraint-free stand-ins with
//! the right public-input count, so any public-input vector can be proven; `tamper` changes one public input
//! after proving (the proof no longer verifies).
use plonky2::field::types::Field;
use plonky2::iop::witness::{PartialWitness, WitnessWrite};
use plonky2::plonk::circuit_builder::CircuitBuilder;
use plonky2::plonk::circuit_data::CircuitConfig;
use serde_json::{json, Value};
use wormhole_aggregator::private_batch::circuit::constants::aggregated_output as ao;
use zk_circuits_common::circuit::{C, D, F};

pub fn run(args: &[String]) {
    let sc: Value = serde_json::from_str(&std::fs::read_to_string(&args[0]).expect("scenario")).expect("json");
    let kind = sc["kind"].as_str().unwrap();
    let n = sc["n"].as_u64().unwrap_or(1) as usize;
    let len = if kind == "leaf" { qp_wormhole_inputs::PUBLIC_INPUTS_FELTS_LEN } else { ao::pi_len(n) };
    let mut b = CircuitBuilder::<F, D>::new(CircuitConfig::standard_recursion_config());
    let pis = b.add_virtual_targets(len);
    b.register_public_inputs(&pis);
    let child = b.build::<C>();
    let vals: Vec<u64> = sc["pis"].as_array().unwrap().iter().map(|v| v.as_u64().unwrap()).collect();
    assert_eq!(vals.len(), len, "scenario public-input length");
    let mut pw = PartialWitness::new();
    for (t, v) in pis.iter().zip(&vals) {
        pw.set_target(*t, F::from_noncanonical_u64(*v)).unwrap();
    }
    let mut proof = child.prove(pw).expect("stand-in proof");
    if sc["tamper"].as_bool().unwrap_or(false) {
        let k = sc["tamper_index"].as_u64().unwrap_or(4) as usize;
        proof.public_inputs[k] += F::ONE;
    }
    let res = std::panic::catch_unwind(std::panic::AssertUnwindSafe(|| {
        if kind == "leaf" {
            wormhole_aggregator::private_batch::prover::PrivateBatchProver::new(
                CircuitConfig::standard_recursion_config(), child.common.clone(), &child.verifier_only, n, proof.clone()).map(|_| ())
        } else {
            wormhole_aggregator::public_batch::prover::PublicBatchProver::new(
                CircuitConfig::standard_recursion_config(), child.common.clone(), &child.verifier_only, 1, n, proof.clone()).map(|_| ())
        }
    }));
    let result = match res {
        Ok(Ok(())) => "ok".to_string(),
        Ok(Err(e)) => format!("err: {e:#}"),
        Err(_) => "panicked".to_string(),
    };
    std::fs::write(&args[1], json!({"result": result}).to_string()).unwrap();
}
