//! `csx-emit publishrun <scenario.json> <out.json>`: drives the REAL publish routine of
//! wormhole/circuit-builder (`commit_staging_dir_impl`, through the guarded public entry) on a real
//! scratch directory, with a scripted fate for each rename call: "ok" (perform it), "fail" (return an
//! I/O error without renaming), "crash_before" / "crash_after" (the process "dies": a panic that the
//! driver catches, before or after performing the rename). Reports what is on disk afterwards.
use serde_json::{json, Value};
use std::cell::Cell;
use std::fs;
use std::path::{Path, PathBuf};

fn classify(p: &Path) -> &'static str {
    if !p.exists() {
        return "absent";
    }
    if !p.is_dir() {
        return "file";
    }
    let has = |n: &str, c: &str| fs::read_to_string(p.join(n)).map(|s| s == c).unwrap_or(false);
    let n = fs::read_dir(p).map(|d| d.count()).unwrap_or(0);
    if n == 3 && has("leaf.bin", "old") && has("batch.bin", "old") && has("config.json", "old") {
        "previous set"
    } else if n == 3 && has("leaf.bin", "new") && has("batch.bin", "new") && has("config.json", "new") {
        "new set"
    } else {
        "mixed or partial"
    }
}

fn make_set(p: &Path, tag: &str) {
    fs::create_dir_all(p).unwrap();
    for f in ["leaf.bin", "batch.bin", "config.json"] {
        fs::write(p.join(f), tag).unwrap();
    }
}

pub fn run(args: &[String]) {
    let sc: Value = serde_json::from_str(&fs::read_to_string(&args[0]).expect("scenario")).expect("json");
    let root = PathBuf::from(sc["root"].as_str().expect("root"));
    let _ = fs::remove_dir_all(&root);
    fs::create_dir_all(&root).unwrap();
    let out = root.join("artifacts");
    let stage = root.join(".artifacts.staging-1-00000000deadbeef");
    let mut old_name = stage.file_name().unwrap().to_os_string();
    old_name.push(".old");
    let old = stage.with_file_name(old_name);
    match sc["out"].as_str().unwrap_or("absent") {
        "previous set" => make_set(&out, "old"),
        "file" => fs::write(&out, "not a directory").unwrap(),
        _ => {}
    }
    match sc["stage"].as_str().unwrap_or("new set") {
        "new set" => make_set(&stage, "new"),
        "file" => fs::write(&stage, "not a directory").unwrap(),
        _ => {}
    }
    if sc["mode"].as_str() == Some("failed_generation") {
        // REAL generate_all_circuit_binaries with a generation step that fails: a watcher plants a non-empty DIRECTORY
        // named like the first artifact file inside the fresh staging dir, so the first artifact write fails.
        let _ = fs::remove_dir_all(&stage);
        let stop = std::sync::Arc::new(std::sync::atomic::AtomicBool::new(false));
        let (root2, stop2) = (root.clone(), stop.clone());
        let watcher = std::thread::spawn(move || {
            let mut planted = vec![];
            while !stop2.load(std::sync::atomic::Ordering::Relaxed) {
                if let Ok(rd) = fs::read_dir(&root2) {
                    for e in rd.flatten() {
                        let n = e.file_name().to_string_lossy().to_string();
                        if n.starts_with(".artifacts.staging-") && !planted.contains(&n) {
                            for f in ["dummy_proof.bin", "common.bin", "verifier.bin"] {
                                let d = e.path().join(f);
                                let _ = fs::create_dir_all(d.join("x"));
                            }
                            planted.push(n);
                        }
                    }
                }
                std::thread::sleep(std::time::Duration::from_millis(1));
            }
            planted
        });
        let res = std::panic::catch_unwind(std::panic::AssertUnwindSafe(|| {
            qp_wormhole_circuit_builder::generate_all_circuit_binaries(&out, false, 1, None)
        }));
        stop.store(true, std::sync::atomic::Ordering::Relaxed);
        let planted = watcher.join().unwrap_or_default();
        let result = match &res {
            Ok(Ok(())) => "ok".to_string(),
            Ok(Err(e)) => format!("err: {e:#}"),
            Err(_) => "crashed".to_string(),
        };
        let leftovers: Vec<String> = fs::read_dir(&root)
            .map(|rd| rd.flatten().map(|e| e.file_name().to_string_lossy().to_string()).filter(|n| n.starts_with(".artifacts.staging-")).collect())
            .unwrap_or_default();
        let report = json!({"result": result, "out": classify(&out), "staging_leftovers": leftovers, "planted_in": planted});
        fs::write(&args[1], report.to_string()).unwrap();
        let _ = fs::remove_dir_all(&root);
        return;
    }
    let script: Vec<String> = sc["renames"].as_array().map(|a| a.iter().map(|v| v.as_str().unwrap_or("ok").to_string()).collect()).unwrap_or_default();
    let calls = Cell::new(0usize);
    let log = std::cell::RefCell::new(vec![]);
    let rename = |src: &Path, dst: &Path| -> std::io::Result<()> {
        let k = calls.get();
        calls.set(k + 1);
        let fate = script.get(k).map(|s| s.as_str()).unwrap_or("ok");
        log.borrow_mut().push(json!({"call": k, "fate": fate, "src": src.file_name().unwrap().to_string_lossy(), "dst": dst.file_name().unwrap().to_string_lossy()}));
        match fate {
            "fail" => Err(std::io::Error::new(std::io::ErrorKind::Other, "injected rename failure")),
            "crash_before" => panic!("injected crash before rename {k}"),
            "crash_after" => {
                fs::rename(src, dst)?;
                panic!("injected crash after rename {k}")
            }
            _ => fs::rename(src, dst),
        }
    };
    let prev_hook = std::panic::take_hook();
    std::panic::set_hook(Box::new(|_| {}));
    let res = std::panic::catch_unwind(std::panic::AssertUnwindSafe(|| {
        qp_wormhole_circuit_builder::verif_commit_staging_dir(&stage, &out, &rename)
    }));
    std::panic::set_hook(prev_hook);
    let result = match &res {
        Ok(Ok(())) => "ok".to_string(),
        Ok(Err(e)) => format!("err: {e:#}"),
        Err(_) => "crashed".to_string(),
    };
    let report = json!({"result": result, "out": classify(&out), "stage": classify(&stage), "old": classify(&old), "renames": *log.borrow()});
    fs::write(&args[1], report.to_string()).unwrap();
    let _ = fs::remove_dir_all(&root);
}
