//! csx-emit: builds the REAL circuits from /repo's working tree and dumps them as a gate-level IR
//! (plus honest witnesses for translator validation), and replays solver counterexamples against
//! the real prover/verifier.
//!
//! usage:
//!   csx-emit emit   <outdir> <seed> <assign.json|-> <spec>...
//!   csx-emit replay <spec> <assign.json> <out.json>
//! specs: leaf | priv:N | pub:M:N | sort:n | lt:left:nlog | enf:bound:nlog | eq | privfull:N | pubfull:M:N
mod cfgrun;
mod ir;
mod leafgen;
mod poolrun;
mod publishrun;
mod tplrun;

use plonky2::field::types::{Field, PrimeField64};
use plonky2::iop::generator::GeneratedValues;
use plonky2::iop::target::Target;
use plonky2::iop::witness::{PartialWitness, PartitionWitness, WitnessWrite};
use plonky2::plonk::circuit_builder::CircuitBuilder;
use plonky2::plonk::circuit_data::{CircuitConfig, CircuitData};
use plonky2::plonk::prover::prove_with_partition_witness;
use plonky2::util::timing::TimingTree;
use serde_json::Value;
use std::collections::BTreeMap;
use wormhole_aggregator::private_batch::circuit::circuit_logic::{
    verif_build_private_batch_constraints, PrivateBatchCircuitTargets,
};
use wormhole_aggregator::private_batch::circuit::constants::aggregated_output;
use wormhole_aggregator::public_batch::circuit::circuit_logic::{
    verif_build_public_batch_constraints, PublicBatchCircuitTargets,
};
use wormhole_circuit::circuit::circuit_logic::{CircuitTargets, WormholeCircuit};
use zk_circuits_common::circuit::{
    wormhole_leaf_circuit_config, wormhole_private_batch_circuit_config,
    wormhole_public_batch_circuit_config, C, D, F,
};

pub struct Built {
    pub name: String,
    pub data: CircuitData<F, C, D>,
    pub named: Vec<(String, Vec<Target>)>,
    pub consts: Vec<(String, Vec<u64>)>,
    pub leaf_targets: Option<CircuitTargets>,
}

fn nonzk(mut c: CircuitConfig) -> CircuitConfig {
    c.zero_knowledge = false;
    c
}

fn felts_u64(v: &[F]) -> Vec<u64> {
    v.iter().map(|f| f.to_canonical_u64()).collect()
}

fn build_leaf() -> Built {
    let circ = WormholeCircuit::new(wormhole_leaf_circuit_config()).expect("leaf config");
    let t = circ.targets();
    let data = circ.build_circuit();
    let mut named: Vec<(String, Vec<Target>)> = vec![];
    let mp = &t.zk_merkle_proof;
    named.push(("asset_id".into(), vec![mp.leaf.asset_id]));
    named.push(("input_amount".into(), vec![mp.leaf.input_amount]));
    named.push(("out1".into(), vec![mp.leaf.output_amount_1]));
    named.push(("out2".into(), vec![mp.leaf.output_amount_2]));
    named.push(("fee".into(), vec![mp.leaf.volume_fee_bps]));
    named.push(("transfer_count".into(), mp.leaf.transfer_count.to_vec()));
    named.push(("to_account".into(), mp.leaf.to_account.elements.to_vec()));
    named.push(("root_hash".into(), mp.root_hash.elements.to_vec()));
    named.push(("depth".into(), vec![mp.depth]));
    named.push(("is_not_dummy".into(), vec![mp.is_not_dummy.target]));
    named.push(("positions".into(), mp.positions.clone()));
    for (l, lv) in mp.siblings.iter().enumerate() {
        for (k, s) in lv.iter().enumerate() {
            named.push((format!("sib_{l}_{k}"), s.elements.to_vec()));
        }
    }
    named.push(("nullifier".into(), t.nullifier.hash.elements.to_vec()));
    named.push(("null_secret".into(), t.nullifier.secret.elements.to_vec()));
    named.push(("null_tc".into(), t.nullifier.transfer_count.to_vec()));
    named.push(("ua_account".into(), t.unspendable_account.account_id.elements.to_vec()));
    named.push(("ua_secret".into(), t.unspendable_account.secret.elements.to_vec()));
    named.push(("exit1".into(), t.exit_accounts.exit_account_1.address.elements.to_vec()));
    named.push(("exit2".into(), t.exit_accounts.exit_account_2.address.elements.to_vec()));
    let bh = &t.block_header;
    named.push(("block_hash".into(), bh.block_hash.elements.to_vec()));
    named.push(("parent_hash".into(), bh.header.parent_hash.to_vec()));
    named.push(("block_number".into(), vec![bh.header.block_number]));
    named.push(("state_root".into(), bh.header.state_root.to_vec()));
    named.push(("extrinsics_root".into(), bh.header.extrinsics_root.to_vec()));
    named.push(("zk_tree_root".into(), bh.header.zk_tree_root.to_vec()));
    named.push(("digest".into(), bh.header.digest.to_vec()));
    let consts = vec![
        (
            "salt_nullifier".to_string(),
            felts_u64(
                &zk_circuits_common::utils::string_to_felts(wormhole_circuit::nullifier::NULLIFIER_SALT)
                    .expect("salt"),
            ),
        ),
        (
            "salt_wormhole".to_string(),
            felts_u64(
                &zk_circuits_common::utils::string_to_felts(
                    wormhole_circuit::unspendable_account::UNSPENDABLE_SALT,
                )
                .expect("salt"),
            ),
        ),
        ("max_depth".to_string(), vec![zk_circuits_common::zk_merkle::MAX_DEPTH as u64]),
    ];
    Built { name: "leaf".into(), data, named, consts, leaf_targets: Some(t) }
}

fn build_priv(n: usize) -> Built {
    let leaf = WormholeCircuit::new(wormhole_leaf_circuit_config()).unwrap().build_verifier();
    let mut b = CircuitBuilder::<F, D>::new(nonzk(wormhole_private_batch_circuit_config()));
    let proofs: Vec<_> = (0..n).map(|_| b.add_virtual_proof_with_pis(&leaf.common)).collect();
    let pre: Vec<[Target; 4]> =
        (0..n).map(|_| core::array::from_fn(|_| b.add_virtual_target())).collect();
    let mut named: Vec<(String, Vec<Target>)> = vec![];
    for i in 0..n {
        named.push((format!("child_{i}"), proofs[i].public_inputs.clone()));
        named.push((format!("pre_{i}"), pre[i].to_vec()));
    }
    let t = PrivateBatchCircuitTargets { leaf_proofs: proofs, dummy_nullifier_pre_images: pre };
    verif_build_private_batch_constraints(&mut b, &t, n);
    let data = b.build::<C>();
    let consts = vec![("pi_len".to_string(), vec![aggregated_output::pi_len(n) as u64])];
    Built { name: format!("priv_{n}"), data, named, consts, leaf_targets: None }
}

fn build_pub(m: usize, n: usize) -> Built {
    let mut b = CircuitBuilder::<F, D>::new(nonzk(wormhole_public_batch_circuit_config()));
    let pil = aggregated_output::pi_len(n);
    let leaf = WormholeCircuit::new(wormhole_leaf_circuit_config()).unwrap().build_verifier();
    let mut proofs = vec![];
    let mut named: Vec<(String, Vec<Target>)> = vec![];
    for i in 0..m {
        // Only the public-input vector of the child proof target is read by the wrapper builder;
        // give it the private-batch PI length over free virtual targets.
        let mut p = b.add_virtual_proof_with_pis(&leaf.common);
        p.public_inputs = b.add_virtual_targets(pil);
        named.push((format!("child_{i}"), p.public_inputs.clone()));
        proofs.push(p);
    }
    let addr: [Target; 4] = core::array::from_fn(|_| b.add_virtual_target());
    named.push(("addr".into(), addr.to_vec()));
    let t = PublicBatchCircuitTargets { private_batch_proofs: proofs, aggregator_address: addr };
    verif_build_public_batch_constraints(&mut b, &t, m, n);
    let data = b.build::<C>();
    let consts = vec![("inner_pi_len".to_string(), vec![pil as u64])];
    Built { name: format!("pub_{m}_{n}"), data, named, consts, leaf_targets: None }
}

fn build_sort(n: usize) -> Built {
    let mut b = CircuitBuilder::<F, D>::new(CircuitConfig::standard_recursion_config());
    let ins: Vec<[Target; 4]> =
        (0..n).map(|_| core::array::from_fn(|_| b.add_virtual_target())).collect();
    let outs = zk_circuits_common::gadgets::sort_digests4(&mut b, ins.clone());
    let mut named: Vec<(String, Vec<Target>)> = vec![];
    for i in 0..n {
        named.push((format!("in_{i}"), ins[i].to_vec()));
        named.push((format!("out_{i}"), outs[i].to_vec()));
    }
    for o in &outs {
        b.register_public_inputs(o);
    }
    let data = b.build::<C>();
    Built { name: format!("sort_{n}"), data, named, consts: vec![], leaf_targets: None }
}

fn build_lt(left: u64, n_log: usize) -> Built {
    let mut b = CircuitBuilder::<F, D>::new(CircuitConfig::standard_recursion_config());
    let x = b.add_virtual_target();
    let lt = zk_circuits_common::gadgets::is_const_less_than(&mut b, left as usize, x, n_log);
    b.register_public_input(lt.target);
    let named = vec![("x".to_string(), vec![x]), ("lt".to_string(), vec![lt.target])];
    let data = b.build::<C>();
    Built { name: format!("lt_{left}_{n_log}"), data, named, consts: vec![], leaf_targets: None }
}

fn build_enf(bound: u64, n_log: usize) -> Built {
    let mut b = CircuitBuilder::<F, D>::new(CircuitConfig::standard_recursion_config());
    let x = b.add_virtual_target();
    zk_circuits_common::gadgets::enforce_target_less_than_const(&mut b, x, bound as usize, n_log);
    b.register_public_input(x);
    let named = vec![("x".to_string(), vec![x])];
    let data = b.build::<C>();
    Built { name: format!("enf_{bound}_{n_log}"), data, named, consts: vec![], leaf_targets: None }
}

fn build_eq() -> Built {
    let mut b = CircuitBuilder::<F, D>::new(CircuitConfig::standard_recursion_config());
    let a: [Target; 4] = core::array::from_fn(|_| b.add_virtual_target());
    let c: [Target; 4] = core::array::from_fn(|_| b.add_virtual_target());
    let e = zk_circuits_common::gadgets::bytes_digest_eq(&mut b, a, c);
    b.register_public_input(e.target);
    let named = vec![
        ("a".to_string(), a.to_vec()),
        ("c".to_string(), c.to_vec()),
        ("e".to_string(), vec![e.target]),
    ];
    let data = b.build::<C>();
    Built { name: "eq".into(), data, named, consts: vec![], leaf_targets: None }
}

/// Fake leaf (21 PIs, three range checks) and unconstrained "malicious" leaf-shaped circuit, as in the repo's own tests.
fn fake_leaf(constrained: bool) -> (CircuitData<F, C, D>, Vec<Target>) {
    let mut b = CircuitBuilder::<F, D>::new(CircuitConfig::standard_recursion_config());
    let pis = b.add_virtual_targets(21);
    if constrained {
        b.range_check(pis[1], 32);
        b.range_check(pis[2], 32);
        b.range_check(pis[3], 32);
    } else {
        // same gates, same degree, same CommonCircuitData - but the range checks sit on other wires, so
        // the amounts are unconstrained: a different circuit (different verifier key) of the same shape
        b.range_check(pis[5], 32);
        b.range_check(pis[6], 32);
        b.range_check(pis[7], 32);
    }
    b.register_public_inputs(&pis);
    (b.build::<C>(), pis)
}

/// The REAL private-batch constructor (recursive verifiers included) over the canonical leaf (or,
/// for the replay, the fake leaf); returns the data plus the recorded verifier-key targets.
fn build_privfull(n: usize, fake: bool) -> (Built, Vec<Target>, Vec<u64>, PrivateBatchCircuitTargets) {
    use wormhole_aggregator::common::recursive::verif_hooks::take_recorded_vk_targets;
    use wormhole_aggregator::private_batch::circuit::circuit_logic::PrivateBatchCircuit;
    let (common, vo) = if fake {
        let (d, _) = fake_leaf(true);
        (d.common.clone(), d.verifier_only.clone())
    } else {
        let v = WormholeCircuit::new(wormhole_leaf_circuit_config()).unwrap().build_verifier();
        (v.common.clone(), v.verifier_only.clone())
    };
    let _ = take_recorded_vk_targets();
    let cfg = if fake { CircuitConfig::standard_recursion_config() } else { nonzk(wormhole_private_batch_circuit_config()) };
    let circ = PrivateBatchCircuit::new(cfg, &common, &vo, n).expect("private batch circuit");
    let rec = take_recorded_vk_targets();
    assert_eq!(rec.len(), 1, "exactly one add_recursive_verifiers call expected");
    let t = circ.targets();
    let data = circ.build_circuit();
    let mut expected: Vec<u64> = felts_u64(&vo.circuit_digest.elements);
    for h in &vo.constants_sigmas_cap.0 {
        expected.extend(felts_u64(&h.elements));
    }
    let mut named = vec![("vk".to_string(), rec[0].clone())];
    for (i, p) in t.leaf_proofs.iter().enumerate() {
        named.push((format!("child_{i}_pis"), p.public_inputs.clone()));
    }
    let mut consts = vec![("vk_expected".to_string(), expected.clone())];
    if !fake {
        // supporting concrete observation (not a solver claim): a child circuit with 20 public inputs is refused
        let mut b = CircuitBuilder::<F, D>::new(CircuitConfig::standard_recursion_config());
        let pis = b.add_virtual_targets(20);
        b.register_public_inputs(&pis);
        let wrong = b.build::<C>();
        let refused = std::panic::catch_unwind(std::panic::AssertUnwindSafe(|| {
            PrivateBatchCircuit::new(nonzk(wormhole_private_batch_circuit_config()), &wrong.common, &wrong.verifier_only, 1).is_err()
        }));
        consts.push(("refuses_wrong_pi_count".to_string(), vec![matches!(refused, Ok(true)) as u64]));
        let _ = take_recorded_vk_targets();
    }
    (Built { name: format!("privfull_{n}"), data, named, consts, leaf_targets: None }, rec[0].clone(), expected, t)
}

fn build_pubfull(m: usize, n: usize) -> Built {
    use wormhole_aggregator::common::recursive::verif_hooks::take_recorded_vk_targets;
    use wormhole_aggregator::public_batch::circuit::circuit_logic::PublicBatchCircuit;
    let (inner, _, _, _) = build_privfull(n, false);
    let _ = take_recorded_vk_targets();
    let circ = PublicBatchCircuit::new(nonzk(wormhole_public_batch_circuit_config()), inner.data.common.clone(), &inner.data.verifier_only, m, n)
        .expect("public batch circuit");
    let rec = take_recorded_vk_targets();
    assert_eq!(rec.len(), 1);
    let mut named = vec![("vk".to_string(), rec[0].clone())];
    for (i, p) in circ.targets().private_batch_proofs.iter().enumerate() {
        named.push((format!("child_{i}_pis"), p.public_inputs.clone()));
    }
    let data = circ.build_circuit();
    let mut expected: Vec<u64> = felts_u64(&inner.data.verifier_only.circuit_digest.elements);
    for h in &inner.data.verifier_only.constants_sigmas_cap.0 {
        expected.extend(felts_u64(&h.elements));
    }
    Built { name: format!("pubfull_{m}_{n}"), data, named, consts: vec![("vk_expected".to_string(), expected)], leaf_targets: None }
}

/// Replay of a "verifier key is not pinned" counterexample: the repo's own foreign-circuit attack,
/// through the real constructor and the real prover/verifier: prove an unconstrained leaf-shaped
/// circuit, feed that proof AND its verifier key (on the recorded key wires) to the private-batch circuit.
fn vk_attack() -> (bool, Vec<u64>, String) {
    let (built, vk_targets, _expected, t) = build_privfull(1, true);
    let (mal, mal_pis) = fake_leaf(false);
    let mut pw = PartialWitness::new();
    for (i, tg) in mal_pis.iter().enumerate() {
        // a statement the honest leaf circuit could never attest (fee of 20000 bps), which the wrapper itself accepts
        let v = if i == 1 { 5 } else if i == 3 { 20000 } else if i >= 16 && i < 20 { 7 } else { 0 };
        pw.set_target(*tg, F::from_canonical_u64(v)).unwrap();
    }
    let (legit, _) = fake_leaf(true);
    if legit.common != mal.common {
        return (false, vec![], "could not build a same-shape foreign circuit (CommonCircuitData differs)".into());
    }
    if legit.verifier_only.circuit_digest == mal.verifier_only.circuit_digest {
        return (false, vec![], "foreign circuit has the same digest as the legitimate one".into());
    }
    let mal_proof = match mal.prove(pw) {
        Ok(p) => p,
        Err(e) => return (false, vec![], format!("could not prove the foreign circuit: {e}")),
    };
    let mut pw = PartialWitness::new();
    if let Err(e) = pw.set_proof_with_pis_target(&t.leaf_proofs[0], &mal_proof) {
        return (false, vec![], format!("foreign proof does not fit the proof target: {e}"));
    }
    for pre in &t.dummy_nullifier_pre_images {
        for (i, tg) in pre.iter().enumerate() {
            pw.set_target(*tg, F::from_canonical_u64(i as u64 + 1)).unwrap();
        }
    }
    let mut preset: BTreeMap<usize, u64> = BTreeMap::new();
    for (tg, v) in pw.target_values.iter() {
        preset.insert(ir::class_of(&built.data, *tg), v.to_canonical_u64());
    }
    // the foreign circuit's verifier key on the key wires (a constant-pinned key makes this impossible)
    let mut key: Vec<u64> = felts_u64(&mal.verifier_only.circuit_digest.elements);
    for h in &mal.verifier_only.constants_sigmas_cap.0 {
        key.extend(felts_u64(&h.elements));
    }
    for (tg, v) in vk_targets.iter().zip(key.iter()) {
        preset.insert(ir::class_of(&built.data, *tg), *v);
    }
    match adversarial_witness(&built.data, &preset) {
        Ok(w) => prove_and_verify(&built.data, w),
        Err(e) => (false, vec![], e),
    }
}

/// Replay of a "slot `slot` is not bound to a recursive verifier" counterexample: the REAL private-batch
/// constructor over a 2-slot batch, a genuine child proof (dummy statement) in the other slot and a valid
/// proof of a same-shape FOREIGN circuit (different verifier key; the pinned child verifier rejects it
/// natively) in `slot`; the key wires keep their pinned constants. Accepted = the slot is not verified.
fn slot_attack(slot: usize) -> (bool, Vec<u64>, String) {
    let (built, _vk_targets, _expected, t) = build_privfull(2, true);
    let (mal, mal_pis) = fake_leaf(false);
    let (legit, legit_pis) = fake_leaf(true);
    if legit.common != mal.common || legit.verifier_only.circuit_digest == mal.verifier_only.circuit_digest {
        return (false, vec![], "could not build a same-shape foreign circuit with a different key".into());
    }
    let mut pw = PartialWitness::new();
    for (i, tg) in mal_pis.iter().enumerate() {
        let v = if i == 1 { 5 } else if i == 3 { 20000 } else if i >= 16 && i < 20 { 7 } else { 0 };
        pw.set_target(*tg, F::from_canonical_u64(v)).unwrap();
    }
    let mal_proof = match mal.prove(pw) {
        Ok(p) => p,
        Err(e) => return (false, vec![], format!("could not prove the foreign circuit: {e}")),
    };
    if legit.verify(mal_proof.clone()).is_ok() {
        return (false, vec![], "the pinned child verifier accepts the foreign proof (not a foreign proof)".into());
    }
    let mut pw = PartialWitness::new();
    for tg in legit_pis.iter() {
        pw.set_target(*tg, F::ZERO).unwrap();
    }
    let genuine = match legit.prove(pw) {
        Ok(p) => p,
        Err(e) => return (false, vec![], format!("could not prove the genuine dummy child: {e}")),
    };
    let mut pw = PartialWitness::new();
    for (i, pt) in t.leaf_proofs.iter().enumerate() {
        let pr = if i == slot { &mal_proof } else { &genuine };
        if let Err(e) = pw.set_proof_with_pis_target(pt, pr) {
            return (false, vec![], format!("proof does not fit the proof target: {e}"));
        }
    }
    for pre in &t.dummy_nullifier_pre_images {
        for (i, tg) in pre.iter().enumerate() {
            pw.set_target(*tg, F::from_canonical_u64(i as u64 + 1)).unwrap();
        }
    }
    let res = std::panic::catch_unwind(std::panic::AssertUnwindSafe(|| built.data.prove(pw)));
    match res {
        Ok(Ok(proof)) => {
            let pis = felts_u64(&proof.public_inputs);
            match built.data.verify(proof) {
                Ok(()) => (true, pis, format!("the real 2-slot private-batch circuit proved and verified a batch whose slot {slot} holds a proof of a FOREIGN circuit")),
                Err(e) => (false, pis, format!("proof produced but rejected by the verifier: {e}")),
            }
        }
        Ok(Err(e)) => (false, vec![], format!("real prover rejects the foreign proof in slot {slot}: {e}")),
        Err(_) => (false, vec![], format!("real prover panics on the foreign proof in slot {slot}")),
    }
}

pub fn build(spec: &str) -> Built {
    let p: Vec<&str> = spec.split(':').collect();
    let num = |i: usize| -> u64 { p[i].parse::<u64>().expect("numeric spec arg") };
    match p[0] {
        "leaf" => build_leaf(),
        "priv" => build_priv(num(1) as usize),
        "pub" => build_pub(num(1) as usize, num(2) as usize),
        "sort" => build_sort(num(1) as usize),
        "lt" => build_lt(num(1), num(2) as usize),
        "enf" => build_enf(num(1), num(2) as usize),
        "eq" => build_eq(),
        "privfull" => build_privfull(num(1) as usize, false).0,
        "pubfull" => build_pubfull(num(1) as usize, num(2) as usize),
        _ => panic!("unknown spec {spec}"),
    }
}

fn named_lookup<'a>(b: &'a Built, name: &str) -> &'a Vec<Target> {
    &b.named.iter().find(|(n, _)| n == name).unwrap_or_else(|| panic!("no named target {name}")).1
}

fn pw_from_named(b: &Built, named: &Value) -> PartialWitness<F> {
    let mut pw = PartialWitness::new();
    if let Some(obj) = named.as_object() {
        for (k, vals) in obj {
            let ts = named_lookup(b, k);
            let arr = vals.as_array().expect("array");
            assert_eq!(arr.len(), ts.len(), "length of named input {k}");
            for (t, v) in ts.iter().zip(arr) {
                let v = v.as_u64().or_else(|| v.as_str().and_then(|s| s.parse().ok())).expect("u64");
                pw.set_target(*t, F::from_noncanonical_u64(v)).expect("set");
            }
        }
    }
    pw
}

/// Adversarial witness: `preset` fixes class values (inputs AND hint wires); the real generators
/// fill only what is still open.
fn adversarial_witness<'a>(
    data: &'a CircuitData<F, C, D>,
    preset: &BTreeMap<usize, u64>,
) -> Result<PartitionWitness<'a, F>, String> {
    let c = &data.common;
    let rep = &data.prover_only.representative_map;
    let mut w = PartitionWitness::new(c.config.num_wires, c.degree(), rep);
    for (cls, v) in preset {
        w.values[rep[*cls]] = Some(F::from_noncanonical_u64(*v));
    }
    let gens = &data.prover_only.generators;
    let mut expired = vec![false; gens.len()];
    let mut buffer = GeneratedValues::empty();
    loop {
        let mut progress = false;
        for (i, g) in gens.iter().enumerate() {
            if expired[i] {
                continue;
            }
            let fin = std::panic::catch_unwind(std::panic::AssertUnwindSafe(|| g.0.run(&w, &mut buffer)));
            let fin = match fin {
                Ok(f) => f,
                Err(_) => {
                    // generator panicked on adversarial inputs (e.g. inverse of 0): leave its
                    // outputs to the preset values / unset.
                    buffer.target_values.clear();
                    expired[i] = true;
                    progress = true;
                    continue;
                }
            };
            for (t, v) in buffer.target_values.drain(..) {
                let idx = rep[t.index(c.config.num_wires, c.degree())];
                if w.values[idx].is_none() {
                    w.values[idx] = Some(v);
                    progress = true;
                }
            }
            if fin {
                expired[i] = true;
                progress = true;
            }
        }
        if !progress {
            break;
        }
    }
    // anything still open: zero
    Ok(w)
}

fn prove_and_verify(data: &CircuitData<F, C, D>, mut w: PartitionWitness<F>) -> (bool, Vec<u64>, String) {
    // unset representatives -> 0 (unused wires)
    for i in 0..w.values.len() {
        if w.representative_map[i] == i && w.values[i].is_none() {
            w.values[i] = Some(F::ZERO);
        }
    }
    let pis: Vec<u64> = data
        .prover_only
        .public_inputs
        .iter()
        .map(|t| {
            let idx = w.representative_map[t.index(data.common.config.num_wires, data.common.degree())];
            w.values[idx].unwrap().to_canonical_u64()
        })
        .collect();
    let res = std::panic::catch_unwind(std::panic::AssertUnwindSafe(|| {
        let mut timing = TimingTree::default();
        prove_with_partition_witness::<F, C, D>(&data.prover_only, &data.common, w, &mut timing)
    }));
    match res {
        Err(_) => (false, pis, "prover panicked".into()),
        Ok(Err(e)) => (false, pis, format!("prover error: {e}")),
        Ok(Ok(proof)) => match data.verify(proof) {
            Ok(()) => (true, pis, "proof verified by the real verifier".into()),
            Err(e) => (false, pis, format!("verifier rejected: {e}")),
        },
    }
}

/// Leaf counterexample concretisation (see csx/checks_leaf.py::leaf_replay): hash-derived inputs the
/// solver model kept spec-consistent are recomputed with the REAL Poseidon2; the Merkle root is read
/// back from the circuit's own walk (cut-16 classes) after a first generator pass.
fn leaf_repair(b: &Built, a: &Value, adversarial: bool) -> (bool, Vec<u64>, String) {
    use plonky2::hash::poseidon2::Poseidon2Hash;
    use plonky2::plonk::config::Hasher;
    let named = a.get("named").and_then(|v| v.as_object()).expect("named");
    let flags = a.get("flags").and_then(|v| v.as_object()).expect("flags");
    let flag = |n: &str| flags.get(n).and_then(|v| v.as_bool()).unwrap_or(false);
    let getv = |n: &str| -> Vec<F> {
        named[n].as_array().unwrap().iter().map(|v| F::from_noncanonical_u64(v.as_u64().unwrap())).collect()
    };
    let h = |v: &[F]| -> Vec<F> { Poseidon2Hash::hash_no_pad(v).elements.to_vec() };
    let constv = |n: &str| -> Vec<F> {
        b.consts.iter().find(|(k, _)| k == n).unwrap().1.iter().map(|x| F::from_canonical_u64(*x)).collect()
    };
    let mut vals: BTreeMap<String, Vec<F>> = BTreeMap::new();
    for (k, _) in named.iter() {
        if k == "is_not_dummy" {
            continue;
        }
        vals.insert(k.clone(), getv(k));
    }
    // optional: the model's DEVIATION of a hash-derived public value from the (uninterpreted) hash of the circuit's own
    // inputs, transplanted onto the real hash: value := real_hash + delta (limb-wise, mod p)
    let delta = |n: &str| -> Option<Vec<F>> {
        a.get("deltas").and_then(|d| d.get(n)).and_then(|v| v.as_array()).map(|v| v.iter().map(|x| F::from_noncanonical_u64(x.as_u64().unwrap())).collect())
    };
    let plus = |hv: Vec<F>, d: &Option<Vec<F>>| -> Vec<F> {
        match d {
            Some(d) => hv.iter().zip(d.iter()).map(|(x, y)| *x + *y).collect(),
            None => hv,
        }
    };
    let secret = getv("null_secret");
    if flag("secret_shared") {
        vals.insert("ua_secret".into(), secret.clone());
    }
    if flag("to_account") {
        let mut pre = constv("salt_wormhole");
        pre.extend(&vals["ua_secret"]);
        let acct = h(&h(&pre));
        vals.insert("to_account".into(), acct.clone());
        vals.insert("ua_account".into(), acct);
    }
    let dn = delta("nullifier");
    if flag("nullifier") || dn.is_some() {
        let mut pre = constv("salt_nullifier");
        pre.extend(&secret);
        pre.extend(&vals["null_tc"]);
        vals.insert("nullifier".into(), plus(h(&h(&pre)), &dn));
    }
    let cut16: Vec<usize> = a
        .get("cut16")
        .and_then(|v| v.as_array())
        .map(|v| v.iter().map(|x| x.as_u64().unwrap() as usize).collect())
        .unwrap_or_default();
    let root_bound = flags.get("root_eq_cut16").and_then(|v| v.as_bool()).unwrap_or(false) && cut16.len() == 4;
    let to_preset = |vals: &BTreeMap<String, Vec<F>>, skip: &[&str]| -> BTreeMap<usize, u64> {
        let mut p = BTreeMap::new();
        for (k, v) in vals {
            if skip.contains(&k.as_str()) {
                continue;
            }
            for (t, x) in named_lookup(b, k).iter().zip(v) {
                p.insert(ir::class_of(&b.data, *t), x.to_canonical_u64());
            }
        }
        p
    };
    if root_bound {
        // pass 1: let the circuit's own walk produce the root
        let p1 = to_preset(&vals, &["root_hash", "zk_tree_root", "block_hash"]);
        let w1 = match adversarial_witness(&b.data, &p1) {
            Ok(w) => w,
            Err(e) => return (false, vec![], e),
        };
        let rep = &b.data.prover_only.representative_map;
        let mut root = vec![];
        for c in &cut16 {
            match w1.values[rep[*c]] {
                Some(v) => root.push(v),
                None => return (false, vec![], "cut-16 class not produced by the generators".into()),
            }
        }
        vals.insert("root_hash".into(), root.clone());
        if flag("tree_root_eq_root") {
            vals.insert("zk_tree_root".into(), root);
        }
    }
    if flag("block_hash") {
        let mut pre = vals["parent_hash"].clone();
        pre.extend(&vals["block_number"]);
        pre.extend(&vals["state_root"]);
        pre.extend(&vals["extrinsics_root"]);
        pre.extend(&vals["zk_tree_root"]);
        pre.extend(&vals["digest"]);
        vals.insert("block_hash".into(), h(&pre));
    } else if let Some(db) = delta("block_hash") {
        let mut pre = vals["parent_hash"].clone();
        pre.extend(&vals["block_number"]);
        pre.extend(&vals["state_root"]);
        pre.extend(&vals["extrinsics_root"]);
        pre.extend(&vals["zk_tree_root"]);
        pre.extend(&vals["digest"]);
        vals.insert("block_hash".into(), plus(h(&pre), &Some(db)));
    }
    let mut preset = to_preset(&vals, &[]);
    if adversarial {
        if let Some(obj) = a.get("classes").and_then(|v| v.as_object()) {
            for (k, v) in obj {
                preset.entry(k.parse::<usize>().unwrap()).or_insert(v.as_u64().unwrap());
            }
        }
    }
    match adversarial_witness(&b.data, &preset) {
        Ok(w) => prove_and_verify(&b.data, w),
        Err(e) => (false, vec![], e),
    }
}

fn cmd_emit(args: &[String]) {
    let outdir = &args[0];
    let seed: u64 = args[1].parse().expect("seed");
    let assign: Value = if args[2] == "-" {
        Value::Null
    } else {
        serde_json::from_str(&std::fs::read_to_string(&args[2]).expect("assign file")).expect("json")
    };
    std::fs::create_dir_all(outdir).unwrap();
    for spec in &args[3..] {
        let t0 = std::time::Instant::now();
        let b = build(spec);
        let mut wits: Vec<ir::Witness> = vec![];
        if let Some(lt) = &b.leaf_targets {
            for (label, inputs, aux) in leafgen::honest_inputs(seed) {
                // a real witness filler / generator that rejects a well-formed honest input is DATA for the
                // checker (C05 completeness at the prover boundary), not an emitter error
                let res = std::panic::catch_unwind(std::panic::AssertUnwindSafe(|| {
                    let mut pw = PartialWitness::new();
                    match wormhole_prover::fill_witness(&mut pw, &inputs, lt) {
                        Ok(()) => ir::honest_witness(&b.data, pw, &label).map_err(|e| format!("witness generation: {e}")),
                        Err(e) => Err(format!("wormhole_prover::fill_witness: {e}")),
                    }
                }));
                match res {
                    Ok(Ok(mut w)) => {
                        w.aux = aux;
                        wits.push(w)
                    }
                    Ok(Err(e)) => wits.push(ir::Witness {
                        label: format!("{label}:GENFAIL"),
                        vals: BTreeMap::new(),
                        aux: format!("{{\"genfail\":{:?},\"inputs\":{aux}}}", e),
                    }),
                    Err(_) => wits.push(ir::Witness {
                        label: format!("{label}:GENFAIL"),
                        vals: BTreeMap::new(),
                        aux: format!("{{\"genfail\":\"witness filler panicked\",\"inputs\":{aux}}}"),
                    }),
                }
            }
        }
        if let Some(list) = assign.get(&b.name).and_then(|v| v.as_array()) {
            for a in list {
                let label = a.get("label").and_then(|l| l.as_str()).unwrap_or("assigned");
                let pw = pw_from_named(&b, a.get("named").unwrap_or(&Value::Null));
                let named_json = a.get("named").map(|v| v.to_string()).unwrap_or_else(|| "{}".into());
                // a failing honest generator is DATA for the checker (completeness probe), not an emitter error
                let res = std::panic::catch_unwind(std::panic::AssertUnwindSafe(|| ir::honest_witness(&b.data, pw, label)));
                match res {
                    Ok(Ok(mut w)) => {
                        w.aux = format!("{{\"named\":{named_json}}}");
                        wits.push(w)
                    }
                    Ok(Err(e)) => wits.push(ir::Witness {
                        label: format!("{label}:GENFAIL"),
                        vals: BTreeMap::new(),
                        aux: format!("{{\"genfail\":{:?},\"named\":{named_json}}}", e),
                    }),
                    Err(_) => wits.push(ir::Witness {
                        label: format!("{label}:GENFAIL"),
                        vals: BTreeMap::new(),
                        aux: format!("{{\"genfail\":\"generator panicked\",\"named\":{named_json}}}"),
                    }),
                }
            }
        }
        let s = if b.name.starts_with("privfull") || b.name.starts_with("pubfull") {
            ir::emit_filtered(&b.name, &b.data, &b.named, &b.consts, &wits, "ConstantGate|PoseidonGate")
        } else {
            ir::emit(&b.name, &b.data, &b.named, &b.consts, &wits)
        };
        let path = format!("{outdir}/{}.json", b.name);
        std::fs::write(&path, s).unwrap();
        eprintln!(
            "emitted {} rows={} gates={} witnesses={} in {:.2}s",
            path,
            b.data.common.degree(),
            b.data.common.gates.len(),
            wits.len(),
            t0.elapsed().as_secs_f64()
        );
    }
}

fn cmd_replay(args: &[String]) {
    let spec = &args[0];
    let assign: Value =
        serde_json::from_str(&std::fs::read_to_string(&args[1]).expect("assign")).expect("json");
    let b = build(spec);
    let mut results = vec![];
    for a in assign.as_array().expect("list of assignments") {
        let label = a.get("label").and_then(|l| l.as_str()).unwrap_or("cex").to_string();
        let mode = a.get("mode").and_then(|l| l.as_str()).unwrap_or("honest");
        let (ok, pis, msg) = if mode == "vk_attack" {
            vk_attack()
        } else if mode == "slot_attack" {
            slot_attack(a.get("slot").and_then(|v| v.as_u64()).unwrap_or(1) as usize)
        } else if mode == "honest" {
            let pw = pw_from_named(&b, a.get("named").unwrap_or(&Value::Null));
            match plonky2::iop::generator::generate_partial_witness(pw, &b.data.prover_only, &b.data.common) {
                Ok(w) => prove_and_verify(&b.data, w),
                Err(e) => (false, vec![], format!("honest witness generation failed: {e}")),
            }
        } else if mode.starts_with("leaf_repair") {
            leaf_repair(&b, a, mode == "leaf_repair_adv")
        } else {
            let mut preset = BTreeMap::new();
            if let Some(obj) = a.get("named").and_then(|v| v.as_object()) {
                for (k, vals) in obj {
                    let ts = named_lookup(&b, k);
                    for (t, v) in ts.iter().zip(vals.as_array().unwrap()) {
                        preset.insert(ir::class_of(&b.data, *t), v.as_u64().unwrap());
                    }
                }
            }
            if let Some(obj) = a.get("classes").and_then(|v| v.as_object()) {
                for (k, v) in obj {
                    preset.insert(k.parse::<usize>().unwrap(), v.as_u64().unwrap());
                }
            }
            match adversarial_witness(&b.data, &preset) {
                Ok(w) => prove_and_verify(&b.data, w),
                Err(e) => (false, vec![], e),
            }
        };
        results.push(serde_json::json!({"label": label, "mode": mode, "accepted": ok, "public_inputs": pis, "detail": msg}));
    }
    std::fs::write(&args[2], serde_json::to_string_pretty(&Value::Array(results)).unwrap()).unwrap();
}

/// Native evaluation of small repo functions on concrete arguments (replay of MIR->SMT counterexamples).
fn cmd_call(args: &[String]) {
    let num = |i: usize| -> u128 { args[i].parse::<u128>().expect("numeric argument") };
    match args[0].as_str() {
        "try_pi_len" => {
            let r = qp_wormhole_inputs::public_batch_pi::try_pi_len(num(1) as usize, num(2) as usize);
            println!("{}", match r { Some(v) => format!("Some {v}"), None => "None".to_string() });
        }
        "validate_proof_count" => {
            println!("{}", if qp_wormhole_inputs::validate_proof_count(num(1) as usize, "n").is_ok() { "Ok" } else { "Err" });
        }
        "quantize" => {
            use plonky2::field::types::PrimeField64;
            match zk_circuits_common::serialization::try_u128_to_quantized_felt(num(1)) {
                Ok(f) => println!("Ok {}", f.to_canonical_u64()),
                Err(_) => println!("Err"),
            }
        }
        "preflight_priv" => {
            // args: JSON list of leaf public-input vectors; calls the REAL private-batch commit preflight
            use plonky2::fri::proof::FriProof;
            use plonky2::hash::merkle_tree::MerkleCap;
            use plonky2::plonk::proof::{OpeningSet, Proof, ProofWithPublicInputs};
            let v: Value = serde_json::from_str(&args[1]).expect("json");
            let proofs: Vec<ProofWithPublicInputs<F, C, D>> = v
                .as_array()
                .unwrap()
                .iter()
                .map(|pis| ProofWithPublicInputs {
                    proof: Proof {
                        wires_cap: MerkleCap(vec![]),
                        plonk_zs_partial_products_cap: MerkleCap(vec![]),
                        quotient_polys_cap: MerkleCap(vec![]),
                        openings: OpeningSet {
                            constants: vec![], plonk_sigmas: vec![], wires: vec![], plonk_zs: vec![], plonk_zs_next: vec![],
                            partial_products: vec![], quotient_polys: vec![], lookup_zs: vec![], lookup_zs_next: vec![],
                        },
                        opening_proof: FriProof {
                            commit_phase_merkle_caps: vec![],
                            query_round_proofs: vec![],
                            final_poly: plonky2::field::polynomial::PolynomialCoeffs { coeffs: vec![] },
                            pow_witness: F::ZERO,
                        },
                    },
                    public_inputs: pis.as_array().unwrap().iter().map(|x| F::from_noncanonical_u64(x.as_u64().unwrap())).collect(),
                })
                .collect();
            let r = wormhole_aggregator::private_batch::prover::lib::verif_ensure_leaf_batch_compatible(&proofs);
            println!("{}", if r.is_ok() { "Ok" } else { "Err" });
        }
        other => panic!("unknown function {other}"),
    }
}

fn main() {
    let args: Vec<String> = std::env::args().collect();
    match args[1].as_str() {
        "emit" => cmd_emit(&args[2..]),
        "replay" => cmd_replay(&args[2..]),
        "call" => cmd_call(&args[2..]),
        "poolrun" => poolrun::run(&args[2..]),
        "publishrun" => publishrun::run(&args[2..]),
        "tplrun" => tplrun::run(&args[2..]),
        "cfgrun" => cfgrun::run(&args[2..]),
        _ => panic!("usage: csx-emit emit|replay ..."),
    }
}
