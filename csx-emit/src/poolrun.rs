//! `csx-emit poolrun <scenario.json> <out.json>`: drives the REAL `ProofPool` through a scripted history.
//! The pool's admission verifier is the verifier data of a tiny stand-in circuit with the private-batch
//! public-input length and no constraints (ProofPool::new accepts any verifier with that length), so a
//! scenario can cheaply mint valid proofs with chosen bucket keys and nullifiers, invalid proofs
//! (public input changed after proving) and malformed proofs (public-input vector of the wrong length).
use plonky2::field::types::Field;
use plonky2::iop::witness::{PartialWitness, WitnessWrite};
use plonky2::plonk::circuit_builder::CircuitBuilder;
use plonky2::plonk::circuit_data::CircuitConfig;
use serde_json::{json, Value};
use std::time::{Duration, Instant};
use wormhole_aggregator::pool::{PoolLimits, ProofPool};
use wormhole_aggregator::private_batch::circuit::constants::aggregated_output as ao;
use zk_circuits_common::circuit::{C, D, F};

pub fn run(args: &[String]) {
    let sc: Value = serde_json::from_str(&std::fs::read_to_string(&args[0]).expect("scenario")).expect("json");
    let n = sc["n"].as_u64().unwrap_or(2) as usize;
    let len = ao::pi_len(n);
    let mut b = CircuitBuilder::<F, D>::new(CircuitConfig::standard_recursion_config());
    let pis = b.add_virtual_targets(len);
    b.register_public_inputs(&pis);
    let data = b.build::<C>();
    let lim = &sc["limits"];
    let limits = PoolLimits {
        max_proofs: lim["max_proofs"].as_u64().unwrap() as usize,
        max_buckets: lim["max_buckets"].as_u64().unwrap() as usize,
        max_verifies_per_window: lim["max_verifies"].as_u64().unwrap() as usize,
        verify_window: Duration::from_millis(lim["window_ms"].as_u64().unwrap()),
    };
    // mint all proofs first, so that the timed part of the run only contains pushes and sleeps
    let ops = sc["ops"].as_array().unwrap();
    let mut minted = vec![];
    for op in ops {
        if op["op"] != "push" {
            minted.push(None);
            continue;
        }
        let kind = op["kind"].as_str().unwrap();
        let mut vals = vec![0u64; len];
        vals[ao::NUM_EXIT_SLOTS_OFFSET] = 2 * n as u64;
        if kind != "dummy" {
            vals[ao::BLOCK_HASH_OFFSET] = op["key"].as_u64().unwrap() + 1;
        }
        let ns = ao::nullifiers_start(n);
        for (i, v) in op["nulls"].as_array().unwrap().iter().enumerate().take(n) {
            vals[ns + 4 * i] = v.as_u64().unwrap() + 1000;
        }
        vals[ao::exit_slots_start()] = op["vol"].as_u64().unwrap_or(1);
        let mut pw = PartialWitness::new();
        for (t, v) in pis.iter().zip(&vals) {
            pw.set_target(*t, F::from_canonical_u64(*v)).unwrap();
        }
        let mut proof = data.prove(pw).expect("stand-in proof");
        match kind {
            "invalid" => proof.public_inputs[ao::BLOCK_NUMBER_OFFSET] = F::from_canonical_u64(77),
            "malformed" => {
                proof.public_inputs.pop();
            }
            _ => {}
        }
        minted.push(Some(proof));
    }
    let t0 = Instant::now();
    let mut pool = match ProofPool::new(data.verifier_data(), n, sc["batch_size"].as_u64().unwrap_or(1) as usize, limits) {
        Ok(p) => p,
        Err(e) => {
            std::fs::write(&args[1], json!({"new_error": e.to_string()}).to_string()).unwrap();
            return;
        }
    };
    let created_ms = t0.elapsed().as_secs_f64() * 1000.0;
    let mut out = vec![];
    for (op, proof) in ops.iter().zip(minted) {
        if op["op"] == "sleep" {
            std::thread::sleep(Duration::from_millis(op["ms"].as_u64().unwrap()));
            out.push(json!({"op": "sleep"}));
            continue;
        }
        let before = t0.elapsed().as_secs_f64() * 1000.0;
        let res = pool.push(proof.unwrap());
        let after = t0.elapsed().as_secs_f64() * 1000.0;
        let (ok, msg) = match &res {
            Ok(_) => (true, String::new()),
            Err(e) => (false, e.to_string()),
        };
        let keys = pool.verif_bucket_keys();
        let mut buckets = vec![];
        for k in &keys {
            let bh: [u8; 32] = *k.block_hash;
            buckets.push(json!({"key": u64::from_le_bytes(bh[0..8].try_into().unwrap()) as i64 - 1, "len": pool.verif_bucket_len(k)}));
        }
        out.push(json!({"op": "push", "ok": ok, "err": msg, "before_ms": before, "after_ms": after, "len": pool.len(),
            "num_buckets": pool.num_buckets(), "index_len": pool.verif_index_len(), "budget_count": pool.verif_budget().1,
            "window_started_ms": pool.verif_budget().0.duration_since(t0).as_secs_f64() * 1000.0, "buckets": buckets}));
    }
    std::fs::write(&args[1], json!({"created_ms": created_ms, "steps": out}).to_string()).unwrap();
}
