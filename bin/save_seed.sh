#!/bin/bash
# usage: save_seed.sh <seed-id> <worktree>   -> copies SEED deliverables into /verif/seeded/<seed-id>/
id="$1"; wt="$2"
d=/verif/seeded/$id; mkdir -p $d/demo
cp $wt/SEED/patch.diff $d/patch.diff
cp -r $wt/SEED/demo/. $d/demo/
cp $wt/SEED/meta.json $d/agent_meta.json
[ -f $wt/SEED/confirm.log ] && grep -E "^==|test result|RESULT" $wt/SEED/confirm.log > $d/confirm.txt
ls $d
