#!/bin/bash
# usage: confirm_seed.sh <worktree> <demo-src-file> <demo-dest-relative-path> <cargo test args for demo...>
# Confirms in the scratch worktree: demo FAILS with the patch, PASSES without it. Logs to <worktree>/SEED/confirm.log
wt="$1"; src="$2"; dest="$3"; shift 3
cd "$wt" || exit 9
export CARGO_NET_OFFLINE=true
log="$wt/SEED/confirm.log"; : > "$log"
mkdir -p "$(dirname "$wt/$dest")"; cp "$src" "$wt/$dest"
echo "== with patch applied: $*" >> "$log"
cargo test --offline -j 6 "$@" >> "$log" 2>&1; rc_with=$?
git stash push -q -- $(git diff --name-only) >> "$log" 2>&1
echo "== patch stashed (original code): $*" >> "$log"
cargo test --offline -j 6 "$@" >> "$log" 2>&1; rc_without=$?
git stash pop -q >> "$log" 2>&1
rm -f "$wt/$dest"
echo "RESULT with_patch_exit=$rc_with without_patch_exit=$rc_without" >> "$log"
tail -1 "$log"
