#!/bin/bash
# usage: with_patch.sh <patch.diff> <timeout_s> <command...>
# Applies a seeded patch to /repo, runs the command under a timeout, ALWAYS restores /repo.
patch="$1"; to="$2"; shift 2
if [ -n "$(git -C /repo status --porcelain)" ]; then echo "/repo not clean"; exit 9; fi
trap 'git -C /repo checkout -- . ; git -C /repo clean -fdq -- wormhole common 2>/dev/null' EXIT
git -C /repo apply "$patch" || { echo "patch does not apply"; exit 8; }
timeout "$to" "$@"
rc=$?
echo "[with_patch] exit=$rc"
exit $rc
