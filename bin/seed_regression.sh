#!/bin/bash
# usage: seed_regression.sh [seed-dir-name ...]   (default: every directory under /verif/seeded)
# Applies each seeded patch to /repo (restored afterwards), runs the matching check, records exit code and VIOLATION count.
cd /verif
out=seeded/REGRESSION.txt
[ $# -eq 0 ] && : > $out
for d in ${@:-$(ls seeded | grep -v REGRESSION)}; do
  [ -f seeded/$d/patch.diff ] || continue
  pid=${d%%-*}
  s=$(date +%s)
  ./bin/with_patch.sh /verif/seeded/$d/patch.diff 3600 ./check $pid --tier quick > work/seedreg_$d.log 2>&1
  e=$(date +%s)
  rc=$(grep -o "\[with_patch\] exit=[0-9]*" work/seedreg_$d.log | tail -1 | cut -d= -f2)
  echo "$d check=$pid exit=$rc violations=$(grep -c '^VIOLATION' work/seedreg_$d.log) wall=$((e-s))s" | tee -a $out
done
git -C /repo status --short | head -3
