//! Kani harnesses over the UNMODIFIED crate qp-wormhole-inputs (path dependency on /repo).
//! Facade: anyhow -> shims/anyhow (static tags instead of formatted messages), alloc::fmt::format stubbed.
extern crate alloc;
#[cfg(kani)]
mod proofs {
    use alloc::string::String;
    use qp_wormhole_inputs::public_batch_pi::{pi_len, try_pi_len};
    use qp_wormhole_inputs::{
        validate_proof_count, BytesDigest, PrivateBatchPublicInputs, PublicBatchPublicInputs,
        PublicCircuitInputs, MAX_PROOF_COUNT,
    };
    const P: u64 = 0xFFFF_FFFF_0000_0001;
    fn fmt_stub(_args: core::fmt::Arguments<'_>) -> String {
        String::new()
    }
    fn u32ok(v: u64) -> bool {
        v <= u32::MAX as u64
    }
    fn dig_ok(s: &[u64]) -> bool {
        s[0] < P && s[1] < P && s[2] < P && s[3] < P
    }
    /// limb-wise comparison without array `==` (a 32-iteration memcmp loop would force a large unwind bound)
    fn dig_eq(d: &BytesDigest, s: &[u64]) -> bool {
        let b: &[u8; 32] = &**d;
        u64::from_le_bytes([b[0], b[1], b[2], b[3], b[4], b[5], b[6], b[7]]) == s[0]
            && u64::from_le_bytes([b[8], b[9], b[10], b[11], b[12], b[13], b[14], b[15]]) == s[1]
            && u64::from_le_bytes([b[16], b[17], b[18], b[19], b[20], b[21], b[22], b[23]]) == s[2]
            && u64::from_le_bytes([b[24], b[25], b[26], b[27], b[28], b[29], b[30], b[31]]) == s[3]
    }
    #[allow(dead_code)]
    fn dig_bytes(s: &[u64]) -> [u8; 32] {
        let mut b = [0u8; 32];
        let mut i = 0;
        while i < 4 {
            let le = s[i].to_le_bytes();
            let mut j = 0;
            while j < 8 {
                b[i * 8 + j] = le[j];
                j += 1;
            }
            i += 1;
        }
        b
    }

    // ---------------------------------------------------------------- C25: digest validation
    #[kani::proof]
    #[kani::unwind(34)]
    fn digest_accepted_iff_limbs_canonical() {
        let b: [u8; 32] = kani::any();
        let ok = (0..4).all(|i| {
            u64::from_le_bytes([b[8 * i], b[8 * i + 1], b[8 * i + 2], b[8 * i + 3], b[8 * i + 4], b[8 * i + 5], b[8 * i + 6], b[8 * i + 7]]) < P
        });
        let r = BytesDigest::try_from(b);
        assert_eq!(r.is_ok(), ok);
        kani::cover!(r.is_ok());
        kani::cover!(r.is_err());
        if let Ok(d) = r {
            assert!(*d == b);
        }
    }

    // ---------------------------------------------------------------- C29: count bound
    #[kani::proof]
    fn validate_proof_count_exact() {
        let c: usize = kani::any();
        let r = validate_proof_count(c, "n");
        assert_eq!(r.is_ok(), c >= 1 && c <= 64);
        assert!(MAX_PROOF_COUNT == 64);
        kani::cover!(r.is_ok());
        kani::cover!(r.is_err());
    }

    #[kani::proof]
    fn try_pi_len_exact_within_documented_counts() {
        let m: usize = kani::any();
        let n: usize = kani::any();
        kani::assume(m <= 64 && n <= 64);
        let wide: u128 = 12u128 + (m as u128) * (2 * n as u128) * 5 + (m as u128) * (n as u128) * 4;
        let r = try_pi_len(m, n);
        assert!(r == Some(wide as usize));
        assert!(pi_len(m, n) as u128 == wide);
        kani::cover!(m == 64 && n == 64);
    }

    // ---------------------------------------------------------------- C24: leaf parser
    #[kani::proof]
    #[kani::unwind(6)]
    #[kani::stub(alloc::fmt::format, fmt_stub)]
    fn leaf_parser_total_exact_fields() {
        let pis: [u64; 21] = kani::any();
        let expect_ok = u32ok(pis[0]) && u32ok(pis[1]) && u32ok(pis[2]) && u32ok(pis[3]) && u32ok(pis[20])
            && dig_ok(&pis[4..8]) && dig_ok(&pis[8..12]) && dig_ok(&pis[12..16]) && dig_ok(&pis[16..20]);
        let r = PublicCircuitInputs::try_from_u64_slice(&pis);
        assert_eq!(r.is_ok(), expect_ok);
        kani::cover!(r.is_ok());
        kani::cover!(r.is_err());
        if let Ok(p) = r {
            assert!(p.asset_id as u64 == pis[0] && p.output_amount_1 as u64 == pis[1] && p.output_amount_2 as u64 == pis[2]);
            assert!(p.volume_fee_bps as u64 == pis[3] && p.block_number as u64 == pis[20]);
            assert!(dig_eq(&p.nullifier, &pis[4..8]));
            assert!(dig_eq(&p.exit_account_1, &pis[8..12]));
            assert!(dig_eq(&p.exit_account_2, &pis[12..16]));
            assert!(dig_eq(&p.block_hash, &pis[16..20]));
        }
    }

    #[kani::proof]
    #[kani::unwind(4)]
    #[kani::stub(alloc::fmt::format, fmt_stub)]
    fn leaf_parser_rejects_every_other_length() {
        let buf: [u64; 24] = kani::any();
        let len: usize = kani::any();
        kani::assume(len <= 24 && len != 21);
        let r = PublicCircuitInputs::try_from_u64_slice(&buf[..len]);
        assert!(r.is_err());
        kani::cover!(len == 0);
        kani::cover!(len == 22);
    }

    // ---------------------------------------------------------------- C24: private-batch parser (u64)
    /// reference acceptance predicate, transcribed from the documented layout
    fn priv_ref_ok(pis: &[u64]) -> bool {
        let len = pis.len();
        if len < 8 || (len - 8) % 21 != 0 {
            return false;
        }
        let n = (len - 8) / 21;
        if n < 1 || n > 64 {
            return false;
        }
        if !(u32ok(pis[0]) && u32ok(pis[1]) && u32ok(pis[2]) && u32ok(pis[7]) && pis[0] == 2 * n as u64 && dig_ok(&pis[3..7])) {
            return false;
        }
        let mut i = 0;
        while i < 2 * n {
            if !(u32ok(pis[8 + 5 * i]) && dig_ok(&pis[9 + 5 * i..13 + 5 * i])) {
                return false;
            }
            i += 1;
        }
        let mut i = 0;
        while i < n {
            if !dig_ok(&pis[8 + 10 * n + 4 * i..12 + 10 * n + 4 * i]) {
                return false;
            }
            i += 1;
        }
        true
    }

    fn check_priv(pis: &[u64]) {
        let len = pis.len();
        let r = PrivateBatchPublicInputs::try_from_u64_slice(pis);
        assert_eq!(r.is_ok(), priv_ref_ok(pis));
        kani::cover!(r.is_ok());
        kani::cover!(r.is_err());
        if let Ok(p) = r {
            let n = (len - 8) / 21;
            assert!(p.num_exit_slots as usize == 2 * n && p.asset_id as u64 == pis[1] && p.volume_fee_bps as u64 == pis[2]);
            assert!(p.block_data.block_number as u64 == pis[7]);
            assert!(dig_eq(&p.block_data.block_hash, &pis[3..7]));
            assert!(p.account_data.len() == 2 * n && p.nullifiers.len() == n);
            let k: usize = kani::any();
            kani::assume(k < 2 * n);
            assert!(p.account_data[k].summed_output_amount as u64 == pis[8 + 5 * k]);
            assert!(dig_eq(&p.account_data[k].exit_account, &pis[9 + 5 * k..13 + 5 * k]));
            let j: usize = kani::any();
            kani::assume(j < n);
            assert!(dig_eq(&p.nullifiers[j], &pis[8 + 10 * n + 4 * j..12 + 10 * n + 4 * j]));
            core::mem::forget(p);
        }
    }

    #[kani::proof]
    #[kani::unwind(6)]
    #[kani::stub(alloc::fmt::format, fmt_stub)]
    fn private_batch_parser_n1_total_and_exact() {
        let buf: [u64; 29] = kani::any();
        check_priv(&buf);
    }

    #[kani::proof]
    #[kani::unwind(6)]
    #[kani::stub(alloc::fmt::format, fmt_stub)]
    fn private_batch_parser_n2_total_and_exact() {
        let buf: [u64; 50] = kani::any();
        check_priv(&buf);
    }

    /// every other length up to 8+21*3+1 (lengths around each layout boundary) is rejected, never a panic
    #[kani::proof]
    #[kani::unwind(6)]
    #[kani::stub(alloc::fmt::format, fmt_stub)]
    fn private_batch_parser_rejects_malformed_lengths() {
        const MAXLEN: usize = 8 + 21 * 3 + 1;
        let buf: [u64; MAXLEN] = kani::any();
        let len: usize = kani::any();
        kani::assume(len <= MAXLEN && len != 29 && len != 50 && len != 71);
        let r = PrivateBatchPublicInputs::try_from_u64_slice(&buf[..len]);
        assert!(r.is_err());
        kani::cover!(len == 0);
        kani::cover!(len == 8);
        kani::cover!(len == 30);
        kani::cover!(len == 72);
    }

    // ---------------------------------------------------------------- C24: public-batch parser
    fn pub_ref_ok(pis: &[u64], m: usize, n: usize) -> bool {
        if m < 1 || m > 64 || n < 1 || n > 64 {
            return false;
        }
        let expected = 12 + 14 * m * n;
        if pis.len() != expected {
            return false;
        }
        if !(dig_ok(&pis[0..4]) && u32ok(pis[4]) && u32ok(pis[5]) && dig_ok(&pis[6..10]) && u32ok(pis[10]) && pis[11] == (2 * m * n) as u64) {
            return false;
        }
        let mut i = 0;
        while i < 2 * m * n {
            if !(u32ok(pis[12 + 5 * i]) && dig_ok(&pis[13 + 5 * i..17 + 5 * i])) {
                return false;
            }
            i += 1;
        }
        let base = 12 + 10 * m * n;
        let mut i = 0;
        while i < m * n {
            if !dig_ok(&pis[base + 4 * i..base + 4 * i + 4]) {
                return false;
            }
            i += 1;
        }
        true
    }

    fn check_pub(pis: &[u64], m: usize, n: usize) {
        let r = PublicBatchPublicInputs::try_from_u64_slice(pis, m, n);
        assert_eq!(r.is_ok(), pub_ref_ok(pis, m, n));
        kani::cover!(r.is_ok());
        kani::cover!(r.is_err());
        if let Ok(p) = r {
            assert!(p.asset_id as u64 == pis[4] && p.volume_fee_bps as u64 == pis[5] && p.block_data.block_number as u64 == pis[10]);
            assert!(p.total_exit_slots as usize == 2 * m * n);
            assert!(dig_eq(&p.aggregator_address, &pis[0..4]));
            assert!(dig_eq(&p.block_data.block_hash, &pis[6..10]));
            assert!(p.account_data.len() == 2 * m * n && p.nullifiers.len() == m * n);
            let k: usize = kani::any();
            kani::assume(k < 2 * m * n);
            assert!(p.account_data[k].summed_output_amount as u64 == pis[12 + 5 * k]);
            assert!(dig_eq(&p.account_data[k].exit_account, &pis[13 + 5 * k..17 + 5 * k]));
            let j: usize = kani::any();
            kani::assume(j < m * n);
            let base = 12 + 10 * m * n;
            assert!(dig_eq(&p.nullifiers[j], &pis[base + 4 * j..base + 4 * j + 4]));
            core::mem::forget(p);
        }
    }

    #[kani::proof]
    #[kani::unwind(6)]
    #[kani::stub(alloc::fmt::format, fmt_stub)]
    fn public_batch_parser_1x1_total_and_exact() {
        let buf: [u64; 26] = kani::any();
        check_pub(&buf, 1, 1);
    }

    #[kani::proof]
    #[kani::unwind(6)]
    #[kani::stub(alloc::fmt::format, fmt_stub)]
    fn public_batch_parser_mn2_total_and_exact() {
        let buf: [u64; 40] = kani::any();
        let m: usize = kani::any();
        kani::assume(m == 1 || m == 2);
        check_pub(&buf, m, 3 - m);
    }

    /// counts outside 1..=64 (incl. usize::MAX) and lengths that do not match the checked layout are rejected
    #[kani::proof]
    #[kani::unwind(6)]
    #[kani::stub(alloc::fmt::format, fmt_stub)]
    fn public_batch_parser_rejects_bad_counts_and_lengths() {
        const MAXLEN: usize = 41;
        let buf: [u64; MAXLEN] = kani::any();
        let len: usize = kani::any();
        kani::assume(len <= MAXLEN);
        let m: usize = kani::any();
        let n: usize = kani::any();
        let counts_ok = m >= 1 && m <= 64 && n >= 1 && n <= 64;
        kani::assume(!counts_ok || len != 12 + 14 * m * n);
        let r = PublicBatchPublicInputs::try_from_u64_slice(&buf[..len], m, n);
        assert!(r.is_err());
        kani::cover!(m == usize::MAX && n == usize::MAX);
        kani::cover!(m == 0);
        kani::cover!(m == 65 && n == 1);
        kani::cover!(counts_ok && len == 40);
    }
}
