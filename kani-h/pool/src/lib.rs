//! Kani harnesses over the UNMODIFIED file wormhole/aggregator/src/pool.rs, compiled against a
//! std facade (virtual clock, vector-backed maps), a proof/verifier stand-in whose `verify`
//! returns the proof's nondeterministic validity bit, and the heap-free anyhow shim.
//! Oracle: a short reference model of the documented admission/custody rules, stepped in lock-step
//! with the real pool over symbolic operation histories and compared through the guarded
//! read-only views after every operation.
#![no_std]
#![feature(prelude_import)]
#![allow(unused_imports, dead_code)]
#[macro_use]
extern crate vstd as std;
#[prelude_import]
use std::prelude::rust_2021::*;

pub mod private_batch {
    pub mod circuit {
        #[path = "/repo/wormhole/aggregator/src/private_batch/circuit/constants.rs"]
        pub mod constants;
    }
}
#[path = "/repo/wormhole/aggregator/src/pool.rs"]
pub mod pool;

#[cfg(kani)]
mod proofs {
    use crate::pool::{BatchKey, PoolLimits, ProofPool};
    use crate::private_batch::circuit::constants::aggregated_output;
    use plonky2::plonk::circuit_data::{verify_calls, CommonCircuitData, VerifierCircuitData};
    use plonky2::plonk::proof::{Pis, ProofWithPublicInputs};
    use qp_wormhole_inputs::BytesDigest;
    use std::collections::HashSet;
    use std::time::{verif_now, verif_set_now, Duration, Instant};
    use zk_circuits_common::circuit::{C, D, F};

    const NL: usize = 1; // leaves (= nullifiers) per pooled proof
    const PI_LEN: usize = 21 * NL + 8;
    const WINDOW: u64 = 10;
    const MAXP: usize = 3; // model capacity (>= max_proofs)

    type Proof = ProofWithPublicInputs<F, C, D>;

    fn digest(v: u64) -> BytesDigest {
        BytesDigest(v)
    }
    fn key_of(sel: u8) -> BatchKey {
        BatchKey { block_hash: digest(sel as u64), asset_id: 0, volume_fee_bps: 0 }
    }

    /// a symbolic client submission drawn from a small domain
    #[derive(Clone, Copy)]
    struct Sub {
        key: u8,       // 0 = all-dummy sentinel, 1..=2 real keys
        n: [u8; NL],   // nullifier values 1..=4
        vol: [u64; 2], // first two exit-slot amounts
        valid: bool,
        short: bool, // wrong public-input length
        id: u32,
    }
    fn any_sub(id: u32) -> Sub {
        let key: u8 = kani::any();
        kani::assume(key <= 2);
        let n: [u8; NL] = kani::any();
        let mut q = 0;
        while q < NL {
            kani::assume(n[q] >= 1 && n[q] <= 4);
            q += 1;
        }
        Sub { key, n, vol: kani::any(), valid: kani::any(), short: kani::any(), id }
    }
    fn proof_of(s: &Sub) -> Proof {
        let mut data = [F(0); plonky2::MAX_PIS];
        data[aggregated_output::NUM_EXIT_SLOTS_OFFSET] = F(2 * NL as u64);
        data[aggregated_output::BLOCK_HASH_OFFSET] = F(s.key as u64);
        data[aggregated_output::exit_slots_start()] = F(s.vol[0]);
        data[aggregated_output::exit_slots_start() + aggregated_output::EXIT_SLOT_LEN] = F(s.vol[1]);
        let ns = aggregated_output::nullifiers_start(NL);
        let mut q = 0;
        while q < NL {
            data[ns + 4 * q] = F(s.n[q] as u64);
            q += 1;
        }
        Proof { public_inputs: Pis { data, len: if s.short { PI_LEN - 1 } else { PI_LEN } }, valid: s.valid, id: s.id, _c: core::marker::PhantomData }
    }
    fn canon(v: u64) -> u64 {
        const P: u64 = 0xFFFF_FFFF_0000_0001;
        if v >= P { v - P } else { v }
    }

    // ------------------------------------------------------------------ reference model
    #[derive(Clone, Copy)]
    struct Entry {
        live: bool,
        key: u8,
        n: [u8; NL],
        volume: u64,
        at: u64,
        id: u32,
        seq: u32,
    }
    struct Model {
        e: [Entry; MAXP],
        seq: u32,
        win_start: u64,
        in_window: usize,
        verifies: usize,
        snap: [Option<u64>; 3],
        max_proofs: usize,
        max_buckets: usize,
        max_verifies: usize,
        batch: usize,
    }
    impl Model {
        fn len(&self) -> usize {
            let mut c = 0;
            let mut i = 0;
            while i < MAXP {
                if self.e[i].live {
                    c += 1;
                }
                i += 1;
            }
            c
        }
        fn count_key(&self, k: u8) -> usize {
            let mut c = 0;
            let mut i = 0;
            while i < MAXP {
                if self.e[i].live && self.e[i].key == k {
                    c += 1;
                }
                i += 1;
            }
            c
        }
        fn buckets(&self) -> usize {
            (self.count_key(1) > 0) as usize + (self.count_key(2) > 0) as usize
        }
        fn holder(&self, nv: u8) -> Option<u8> {
            let mut i = 0;
            while i < MAXP {
                if self.e[i].live && (self.e[i].n[0] == nv || self.e[i].n[NL - 1] == nv) {
                    return Some(self.e[i].key);
                }
                i += 1;
            }
            None
        }
        /// the documented admission rules, in order; returns the admitted key
        fn push(&mut self, s: &Sub, now: u64) -> Option<u8> {
            if self.len() >= self.max_proofs {
                return None;
            }
            if s.short {
                return None;
            }
            if s.key == 0 {
                return None;
            }
            if now.saturating_sub(self.win_start) >= WINDOW {
                self.win_start = now;
                self.in_window = 0;
            }
            if self.in_window >= self.max_verifies {
                return None;
            }
            self.in_window += 1;
            self.verifies += 1;
            if !s.valid {
                return None;
            }
            if self.count_key(s.key) == 0 && self.buckets() >= self.max_buckets {
                return None;
            }
            if self.holder(s.n[0]).is_some() || self.holder(s.n[NL - 1]).is_some() {
                return None;
            }
            let mut i = 0;
            while i < MAXP {
                if !self.e[i].live {
                    self.e[i] = Entry { live: true, key: s.key, n: s.n, volume: canon(s.vol[0]).saturating_add(canon(s.vol[1])), at: now, id: s.id, seq: self.seq };
                    self.seq += 1;
                    return Some(s.key);
                }
                i += 1;
            }
            None
        }
        fn drop_empty_snap(&mut self) {
            let mut k = 1;
            while k <= 2 {
                if self.count_key(k as u8) == 0 {
                    self.snap[k] = None;
                }
                k += 1;
            }
        }
    }

    /// i-th oldest live entry of a key (admission order)
    fn nth_of_key(m: &Model, k: u8, idx: usize) -> Option<Entry> {
        let mut seen = 0;
        let mut next_seq = 0u32;
        loop {
            // smallest seq >= next_seq among live entries of the key
            let mut best: Option<Entry> = None;
            let mut i = 0;
            while i < MAXP {
                let e = m.e[i];
                if e.live && e.key == k && e.seq >= next_seq {
                    match best {
                        Some(b) if b.seq <= e.seq => {}
                        _ => best = Some(e),
                    }
                }
                i += 1;
            }
            match best {
                None => return None,
                Some(b) => {
                    if seen == idx {
                        return Some(b);
                    }
                    seen += 1;
                    next_seq = b.seq + 1;
                }
            }
        }
    }

    /// C20: the real pool's private state equals the model (index = exactly the pooled nullifiers,
    /// each mapped to its bucket; no empty bucket; proofs in their own bucket; counts within limits).
    fn check_state(p: &ProofPool, m: &Model) {
        assert!(p.len() == m.len());
        assert!(p.len() <= m.max_proofs);
        assert!(p.num_buckets() == m.buckets());
        assert!(p.num_buckets() <= m.max_buckets);
        assert!(p.is_empty() == (m.len() == 0));
        let mut k = 0u8;
        while k <= 2 {
            let cnt = m.count_key(k);
            let bl = p.verif_bucket_len(&key_of(k));
            if cnt == 0 {
                assert!(bl.is_none()); // no empty bucket, nothing under the dummy key
            } else {
                assert!(bl == Some(cnt));
                let mut i = 0;
                while i < cnt {
                    let e = nth_of_key(m, k, i).unwrap();
                    let (nulls, vol, at) = p.verif_proof_meta(&key_of(k), i).unwrap();
                    assert!(nulls.len() == NL && nulls[0] == digest(e.n[0] as u64) && nulls[NL - 1] == digest(e.n[NL - 1] as u64));
                    assert!(vol == e.volume && at == Instant(e.at));
                    assert!(p.verif_proof(&key_of(k), i).unwrap().id == e.id);
                    i += 1;
                }
                assert!(p.verif_last_snapshot_at(&key_of(k)) == Some(m.snap[k as usize].map(Instant)));
            }
            k += 1;
        }
        let mut distinct = 0;
        let mut nv = 1u8;
        while nv <= 4 {
            let h = m.holder(nv);
            assert!(p.verif_index_key(&digest(nv as u64)) == h.map(key_of));
            if h.is_some() {
                distinct += 1;
            }
            nv += 1;
        }
        assert!(p.verif_index_len() == distinct);
        let (ws, cnt) = p.verif_budget();
        assert!(ws == Instant(m.win_start) && cnt == m.in_window);
        // C22: verification work is bounded per window and every verification is charged
        assert!(cnt <= m.max_verifies);
        assert!(verify_calls() == m.verifies);
    }

    fn new_pool(max_proofs: usize, max_buckets: usize, max_verifies: usize, batch: usize) -> (ProofPool, Model) {
        verif_set_now(0);
        let verifier = VerifierCircuitData { common: CommonCircuitData { num_public_inputs: PI_LEN }, _p: core::marker::PhantomData };
        let limits = PoolLimits { max_proofs, max_buckets, max_verifies_per_window: max_verifies, verify_window: Duration(WINDOW) };
        let pool = ProofPool::new(verifier, NL, batch, limits).unwrap();
        let dead = Entry { live: false, key: 0, n: [0; NL], volume: 0, at: 0, id: 0, seq: 0 };
        let m = Model { e: [dead; MAXP], seq: 0, win_start: 0, in_window: 0, verifies: 0, snap: [None; 3], max_proofs, max_buckets, max_verifies, batch };
        (pool, m)
    }

    /// one symbolic operation on both the real pool and the model, then full state comparison
    fn step(p: &mut ProofPool, m: &mut Model, id: u32, op: u8) {
        match op {
            0 => {
                // clock advance
                let dt: u64 = kani::any();
                kani::assume(dt <= 12);
                verif_set_now(verif_now() + dt);
            }
            1 => {
                let s = any_sub(id);
                let before = verify_calls();
                let r = p.push(proof_of(&s));
                let exp = m.push(&s, verif_now());
                // C19: admitted iff the documented rules say so, into the proof's own bucket
                assert!(r.is_ok() == exp.is_some());
                if let Ok(k) = r {
                    assert!(k == key_of(s.key));
                }
                assert!(verify_calls() <= before + 1);
                kani::cover!(r.is_ok());
                kani::cover!(r.is_err() && verify_calls() == before + 1 && s.valid);
            }
            2 => {
                // settlement of up to two nullifiers
                let a: u8 = kani::any();
                let b: u8 = kani::any();
                kani::assume(a >= 1 && a <= 5 && b >= 1 && b <= 5);
                let mut set: HashSet<BytesDigest> = HashSet::new();
                set.insert(digest(a as u64));
                set.insert(digest(b as u64));
                let got = p.evict_settled(&set);
                let mut exp = 0;
                let mut i = 0;
                while i < MAXP {
                    let e = m.e[i];
                    if e.live && (e.n[0] == a || e.n[0] == b || e.n[NL - 1] == a || e.n[NL - 1] == b) {
                        m.e[i].live = false;
                        exp += 1;
                    }
                    i += 1;
                }
                m.drop_empty_snap();
                // C21: exactly the targeted proofs leave, and their number is reported
                assert!(got == exp);
                kani::cover!(got > 0);
            }
            3 => {
                let age: u64 = kani::any();
                kani::assume(age <= 12);
                let got = p.evict_older_than(Duration(age));
                let now = verif_now();
                let mut exp = 0;
                let mut i = 0;
                while i < MAXP {
                    if m.e[i].live && now.saturating_sub(m.e[i].at) > age {
                        m.e[i].live = false;
                        exp += 1;
                    }
                    i += 1;
                }
                m.drop_empty_snap();
                assert!(got == exp);
                kani::cover!(got > 0);
            }
            4 => {
                let k: u8 = kani::any();
                kani::assume(k <= 2);
                let got = p.snapshot_batch(&key_of(k));
                let cnt = m.count_key(k);
                // C21: snapshots remove nothing and return the oldest min(count, batch) proofs in admission order
                assert!(got.is_some() == (cnt > 0));
                if let Some(v) = got {
                    let want = if cnt < m.batch { cnt } else { m.batch };
                    assert!(v.len() == want);
                    let mut i = 0;
                    while i < want {
                        assert!(v[i].id == nth_of_key(m, k, i).unwrap().id);
                        i += 1;
                    }
                    m.snap[k as usize] = Some(verif_now());
                    kani::cover!(want == 2);
                }
            }
            _ => {
                let k: u8 = kani::any();
                kani::assume(k <= 2);
                let got = p.remove_bucket(&key_of(k));
                let cnt = m.count_key(k);
                assert!(got.len() == cnt);
                let mut i = 0;
                while i < cnt {
                    assert!(got[i].id == nth_of_key(m, k, i).unwrap().id);
                    i += 1;
                }
                let mut i = 0;
                while i < MAXP {
                    if m.e[i].live && m.e[i].key == k {
                        m.e[i].live = false;
                    }
                    i += 1;
                }
                m.drop_empty_snap();
                kani::cover!(cnt > 0);
            }
        }
        check_state(p, m);
    }

    /// ops: 0 clock advance, 1 push, 2 evict_settled, 3 evict_older_than, 4 snapshot_batch, 5 remove_bucket
    fn history(ops: &[u8], max_proofs: usize, max_buckets: usize, max_verifies: usize, batch: usize) {
        let (mut p, mut m) = new_pool(max_proofs, max_buckets, max_verifies, batch);
        check_state(&p, &m);
        let mut i = 0;
        while i < ops.len() {
            step(&mut p, &mut m, 100 + i as u32, ops[i]);
            i += 1;
        }
        // bucket statistics agree with the pooled contents (C20 last clause)
        let stats = p.bucket_stats();
        assert!(stats.len() == m.buckets());
        let now = verif_now();
        let mut j = 0;
        while j < stats.len() {
            let st = &stats[j];
            let k: u8 = if st.key == key_of(1) { 1 } else { 2 };
            assert!(st.key == key_of(k));
            assert!(st.num_proofs == m.count_key(k) && st.batch_size == m.batch);
            let mut oldest = 0u64;
            let mut vol = 0u64;
            let mut i = 0;
            while i < MAXP {
                if m.e[i].live && m.e[i].key == k {
                    let a = now.saturating_sub(m.e[i].at);
                    if a > oldest {
                        oldest = a;
                    }
                    vol = vol.saturating_add(m.e[i].volume);
                }
                i += 1;
            }
            assert!(st.oldest_age == Duration(oldest) && st.total_volume == vol);
            assert!(st.last_snapshot_age == m.snap[k as usize].map(|t| Duration(now.saturating_sub(t))));
            j += 1;
        }
        core::mem::forget(stats);
        core::mem::forget(p);
    }

    macro_rules! template {
        ($name:ident, [$($op:expr),*], $mp:expr, $mb:expr, $mv:expr, $bs:expr) => {
            #[kani::proof]
            #[kani::unwind(10)]
            fn $name() {
                history(&[$($op),*], $mp, $mb, $mv, $bs);
            }
        };
    }
    template!(t_push_push_settle, [1, 1, 2], 2, 2, 2, 2);
    template!(t_push, [1], 2, 1, 1, 1);

    #[kani::proof]
    #[kani::unwind(10)]
    fn probe_vec_of_big() {
        let s = any_sub(1);
        let mut v: Vec<(Proof, Vec<BytesDigest>, u64)> = Vec::new();
        v.push((proof_of(&s), Vec::new(), 3));
        assert!(v.len() == 1);
        core::mem::forget(v);
    }

    #[kani::proof]
    #[kani::unwind(10)]
    fn probe_new_only() {
        let (p, _m) = new_pool(2, 1, 1, 1);
        assert!(p.len() == 0);
        core::mem::forget(p);
    }

    #[kani::proof]
    #[kani::unwind(10)]
    fn probe_push_short_pi() {
        let (mut p, _m) = new_pool(2, 1, 1, 1);
        let mut s = any_sub(1);
        s.short = true;
        let r = p.push(proof_of(&s));
        assert!(r.is_err());
        core::mem::forget(p);
    }

    #[kani::proof]
    #[kani::unwind(10)]
    fn probe_push_only() {
        let (mut p, mut m) = new_pool(2, 1, 1, 1);
        let mut s = any_sub(1);
        s.short = false;
        let r = p.push(proof_of(&s));
        let exp = m.push(&s, verif_now());
        assert!(r.is_ok() == exp.is_some());
        core::mem::forget(p);
    }
}
