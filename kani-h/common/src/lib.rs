//! Kani harnesses over the UNMODIFIED crate qp-zk-circuits-common (path dependency on /repo) and
//! its pinned dependencies qp-plonky2-field / qp-poseidon-core.
//! Facade: anyhow -> shims/anyhow; alloc::fmt::format stubbed; the Poseidon2 sponge
//! (qp_poseidon_core::hash_to_bytes) stubbed by a recording deterministic model where stated.
extern crate alloc;
#[cfg(kani)]
mod proofs {
    use alloc::string::String;
    use alloc::vec::Vec;
    use plonky2::field::types::{Field, PrimeField64};
    use plonky2::plonk::circuit_data::CircuitConfig;
    use qp_poseidon_core::Goldilocks;
    use qp_wormhole_inputs::BytesDigest;
    use zk_circuits_common::circuit::{validate_circuit_config, F};
    use zk_circuits_common::serialization as ser;
    use zk_circuits_common::zk_merkle as zm;

    const P: u64 = 0xFFFF_FFFF_0000_0001;
    fn fmt_stub(_args: core::fmt::Arguments<'_>) -> String {
        String::new()
    }

    // ------------------------------------------------------------------------------------------
    // hash model: records the preimage it was given and returns a cheap deterministic function of it
    static mut LAST_PRE: [u64; 16] = [0; 16];
    static mut LAST_LEN: usize = 0;
    static mut CALLS: usize = 0;
    fn hash_model(x: &[Goldilocks]) -> [u8; 32] {
        let mut acc = [0x9E37_79B9_7F4A_7C15u64, 0xBF58_476D_1CE4_E5B9, 0x94D0_49BB_1331_11EB, 0x2545_F491_4F6C_DD1D];
        unsafe {
            LAST_LEN = x.len();
            CALLS += 1;
        }
        let mut i = 0;
        while i < x.len() && i < 16 {
            let v = x[i].as_canonical_u64();
            unsafe {
                LAST_PRE[i] = v;
            }
            acc[i % 4] = acc[i % 4].rotate_left(7) ^ v.wrapping_add(i as u64);
            i += 1;
        }
        let mut out = [0u8; 32];
        let mut k = 0;
        while k < 4 {
            // keep every limb canonical (< p), as a genuine hash output is
            let limb = acc[k] % P;
            let le = limb.to_le_bytes();
            let mut j = 0;
            while j < 8 {
                out[8 * k + j] = le[j];
                j += 1;
            }
            k += 1;
        }
        out
    }

    fn limb(b: &[u8], i: usize) -> u64 {
        u64::from_le_bytes([b[8 * i], b[8 * i + 1], b[8 * i + 2], b[8 * i + 3], b[8 * i + 4], b[8 * i + 5], b[8 * i + 6], b[8 * i + 7]])
    }
    fn canonical32(b: &[u8; 32]) -> bool {
        limb(b, 0) < P && limb(b, 1) < P && limb(b, 2) < P && limb(b, 3) < P
    }
    fn first_limb_hash() -> [u8; 32] {
        let mut out = [0u8; 32];
        let v: u64 = kani::any();
        let le = v.to_le_bytes();
        let mut j = 0;
        while j < 8 {
            out[j] = le[j];
            j += 1;
        }
        out
    }
    #[allow(dead_code)]
    fn any_canonical_hash() -> [u8; 32] {
        let mut out = [0u8; 32];
        let mut k = 0;
        while k < 4 {
            let v: u64 = kani::any();
            kani::assume(v < P);
            let le = v.to_le_bytes();
            let mut j = 0;
            while j < 8 {
                out[8 * k + j] = le[j];
                j += 1;
            }
            k += 1;
        }
        out
    }

    // ========================================================================== C25 integer limbs
    #[kani::proof]
    #[kani::unwind(6)]
    #[kani::stub(alloc::fmt::format, fmt_stub)]
    fn u64_limb_encoding_inverts_and_rejects_wide_limbs() {
        let x: u64 = kani::any();
        assert!(ser::try_felts_to_u64(ser::u64_to_felts(x)) == Ok(x));
        let a: u64 = kani::any();
        let b: u64 = kani::any();
        let fa = F::from_noncanonical_u64(a);
        let fb = F::from_noncanonical_u64(b);
        let (ca, cb) = (fa.to_canonical_u64(), fb.to_canonical_u64());
        let r = ser::try_felts_to_u64([fa, fb]);
        assert_eq!(r.is_ok(), ca <= 0xFFFF_FFFF && cb <= 0xFFFF_FFFF);
        if let Ok(v) = r {
            assert!(v == (ca << 32) | cb);
        }
        kani::cover!(r.is_ok());
        kani::cover!(r.is_err());
        kani::cover!(a >= P);
    }

    #[kani::proof]
    #[kani::unwind(6)]
    #[kani::stub(alloc::fmt::format, fmt_stub)]
    fn u128_limb_encoding_inverts_and_rejects_wide_limbs() {
        let x: u128 = kani::any();
        assert!(ser::try_felts_to_u128(ser::u128_to_felts(x)) == Ok(x));
        let l: [u64; 4] = kani::any();
        let f = [F::from_noncanonical_u64(l[0]), F::from_noncanonical_u64(l[1]), F::from_noncanonical_u64(l[2]), F::from_noncanonical_u64(l[3])];
        let c = [f[0].to_canonical_u64(), f[1].to_canonical_u64(), f[2].to_canonical_u64(), f[3].to_canonical_u64()];
        let r = ser::try_felts_to_u128(f);
        assert_eq!(r.is_ok(), c[0] <= 0xFFFF_FFFF && c[1] <= 0xFFFF_FFFF && c[2] <= 0xFFFF_FFFF && c[3] <= 0xFFFF_FFFF);
        if let Ok(v) = r {
            assert!(v == ((c[0] as u128) << 96) | ((c[1] as u128) << 64) | ((c[2] as u128) << 32) | (c[3] as u128));
        }
        kani::cover!(r.is_ok());
        kani::cover!(r.is_err());
    }

    /// quantization: the exact claim needs 128-bit division by 10^10, which CBMC does not finish
    /// (measured: > 25 min); bounded variant: amounts within 2^20 quantization units around the u32 cap.
    #[kani::proof]
    #[kani::stub(alloc::fmt::format, fmt_stub)]
    fn quantization_fails_exactly_above_u32_near_the_cap() {
        let d: u32 = kani::any();
        kani::assume(d < (1 << 20));
        let below: bool = kani::any();
        let cap = (1u128 << 32) * 10_000_000_000u128;
        let x = if below { cap - 1 - d as u128 } else { cap + d as u128 };
        let r = ser::try_u128_to_quantized_felt(x);
        assert_eq!(r.is_ok(), below);
        kani::cover!(r.is_ok());
        kani::cover!(r.is_err());
    }

    // ========================================================================== C25 digests
    #[kani::proof]
    #[kani::unwind(6)]
    fn accepted_digest_round_trips_through_felts() {
        let b: [u8; 32] = kani::any();
        let r = BytesDigest::try_from(b);
        assert_eq!(r.is_ok(), canonical32(&b));
        if r.is_ok() {
            let felts = ser::bytes_to_digest(&b);
            let back = ser::digest_to_bytes(&felts);
            assert!(limb(&back, 0) == limb(&b, 0) && limb(&back, 1) == limb(&b, 1) && limb(&back, 2) == limb(&b, 2) && limb(&back, 3) == limb(&b, 3));
            kani::cover!(limb(&b, 0) == P - 1);
        } else {
            // off the canonical domain the round trip is lossy (alias mod p): that is why it is rejected
            kani::cover!(limb(&b, 0) == P);
        }
    }

    // ========================================================================== C25 edge encoding
    fn edge_round_trip<const N: usize>() {
        let buf: [u8; N] = kani::any();
        let felts = ser::bytes_to_felts(&buf).unwrap();
        assert!(felts.len() == N / 4 + 1);
        let mut i = 0;
        while i < felts.len() {
            assert!(felts[i].to_canonical_u64() <= 0xFFFF_FFFF);
            i += 1;
        }
        // the terminator makes the encoding length-injective: last limb is never zero
        assert!(felts[felts.len() - 1].to_canonical_u64() != 0);
        let back = ser::felts_to_bytes(&felts);
        assert!(back.is_ok());
        let back = back.unwrap();
        assert!(back.len() == N);
        let mut i = 0;
        while i < N {
            assert!(back[i] == buf[i]);
            i += 1;
        }
        core::mem::forget(felts);
        core::mem::forget(back);
    }
    #[kani::proof]
    #[kani::unwind(12)]
    #[kani::stub(alloc::fmt::format, fmt_stub)]
    fn edge_encoding_round_trips_len_0() {
        edge_round_trip::<0>();
    }
    #[kani::proof]
    #[kani::unwind(12)]
    #[kani::stub(alloc::fmt::format, fmt_stub)]
    fn edge_encoding_round_trips_len_1() {
        edge_round_trip::<1>();
    }
    #[kani::proof]
    #[kani::unwind(12)]
    #[kani::stub(alloc::fmt::format, fmt_stub)]
    fn edge_encoding_round_trips_len_2() {
        edge_round_trip::<2>();
    }
    #[kani::proof]
    #[kani::unwind(12)]
    #[kani::stub(alloc::fmt::format, fmt_stub)]
    fn edge_encoding_round_trips_len_3() {
        edge_round_trip::<3>();
    }
    #[kani::proof]
    #[kani::unwind(12)]
    #[kani::stub(alloc::fmt::format, fmt_stub)]
    fn edge_encoding_round_trips_len_4() {
        edge_round_trip::<4>();
    }
    #[kani::proof]
    #[kani::unwind(12)]
    #[kani::stub(alloc::fmt::format, fmt_stub)]
    fn edge_encoding_round_trips_len_5() {
        edge_round_trip::<5>();
    }
    #[kani::proof]
    #[kani::unwind(12)]
    #[kani::stub(alloc::fmt::format, fmt_stub)]
    fn edge_encoding_round_trips_len_6() {
        edge_round_trip::<6>();
    }
    #[kani::proof]
    #[kani::unwind(12)]
    #[kani::stub(alloc::fmt::format, fmt_stub)]
    fn edge_encoding_round_trips_len_7() {
        edge_round_trip::<7>();
    }
    #[kani::proof]
    #[kani::unwind(12)]
    #[kani::stub(alloc::fmt::format, fmt_stub)]
    fn edge_encoding_round_trips_len_8() {
        edge_round_trip::<8>();
    }
    #[kani::proof]
    #[kani::unwind(12)]
    #[kani::stub(alloc::fmt::format, fmt_stub)]
    fn edge_encoding_round_trips_len_9() {
        edge_round_trip::<9>();
    }
    // injectivity of the edge encoding on the covered lengths follows from the round-trip harnesses:
    // decode(encode(x)) = x for every x, so encode(a) = encode(b) implies a = b (also across lengths).

    fn edge_decode_total<const N: usize>() {
        let l: [u64; N] = kani::any();
        let mut f = [F::ZERO; N];
        let mut i = 0;
        let mut wide = false;
        while i < N {
            f[i] = F::from_noncanonical_u64(l[i]);
            if f[i].to_canonical_u64() > 0xFFFF_FFFF {
                wide = true;
            }
            i += 1;
        }
        let r = ser::felts_to_bytes(&f);
        if N == 0 || wide {
            assert!(r.is_err());
        }
        if let Ok(bytes) = &r {
            // whatever decodes re-encodes to the same felts (decode is a partial inverse, never a panic)
            assert!(bytes.len() <= 4 * N);
        }
        kani::cover!(r.is_ok());
        kani::cover!(r.is_err());
        core::mem::forget(r);
    }
    #[kani::proof]
    #[kani::unwind(8)]
    #[kani::stub(alloc::fmt::format, fmt_stub)]
    fn edge_decoding_total_0_felts() {
        let r = ser::felts_to_bytes(&[]);
        assert!(r.is_err());
    }
    #[kani::proof]
    #[kani::unwind(8)]
    #[kani::stub(alloc::fmt::format, fmt_stub)]
    fn edge_decoding_total_1_felt() {
        edge_decode_total::<1>();
    }
    #[kani::proof]
    #[kani::unwind(8)]
    #[kani::stub(alloc::fmt::format, fmt_stub)]
    fn edge_decoding_total_2_felts() {
        edge_decode_total::<2>();
    }

    #[kani::proof]
    fn byte_encoders_reject_input_longer_than_1_mib() {
        assert!(ser::MAX_SERIALIZED_BYTES == 1 << 20);
        let big: Vec<u8> = alloc::vec![0u8; (1 << 20) + 1];
        assert!(ser::bytes_to_felts(&big).is_err());
        assert!(ser::bytes_to_felts_compact(&big).is_err());
        #[cfg(quantus_network_qp_zk_circuits_verif)]
        assert!(ser::verif_hash_bytes_compact(&big).is_err());
        core::mem::forget(big);
    }

    // ========================================================================== C26 compact hash domain
    #[cfg(quantus_network_qp_zk_circuits_verif)]
    fn compact_hash_exact<const N: usize>() {
        let buf: [u8; N] = kani::any();
        let r = ser::verif_hash_bytes_compact(&buf);
        let mut ok = N % 8 == 0;
        let mut i = 0;
        while ok && i < N / 8 {
            if limb(&buf, i) >= P {
                ok = false;
            }
            i += 1;
        }
        assert_eq!(r.is_ok(), ok);
        if r.is_ok() {
            // the field sequence handed to the sponge is exactly the limb sequence (injective on the accepted domain)
            unsafe {
                assert!(LAST_LEN == N / 8);
                let mut i = 0;
                while i < N / 8 {
                    assert!(LAST_PRE[i] == limb(&buf, i));
                    i += 1;
                }
            }
        }
        kani::cover!(r.is_ok());
        kani::cover!(r.is_err());
    }
    #[cfg(quantus_network_qp_zk_circuits_verif)]
    #[kani::proof]
    #[kani::unwind(10)]
    #[kani::stub(alloc::fmt::format, fmt_stub)]
    #[kani::stub(qp_poseidon_core::hash_to_bytes, hash_model)]
    fn compact_hash_domain_len_0() {
        compact_hash_exact::<0>();
    }
    #[cfg(quantus_network_qp_zk_circuits_verif)]
    #[kani::proof]
    #[kani::unwind(10)]
    #[kani::stub(alloc::fmt::format, fmt_stub)]
    #[kani::stub(qp_poseidon_core::hash_to_bytes, hash_model)]
    fn compact_hash_domain_len_7() {
        compact_hash_exact::<7>();
    }
    #[cfg(quantus_network_qp_zk_circuits_verif)]
    #[kani::proof]
    #[kani::unwind(10)]
    #[kani::stub(alloc::fmt::format, fmt_stub)]
    #[kani::stub(qp_poseidon_core::hash_to_bytes, hash_model)]
    fn compact_hash_domain_len_8() {
        compact_hash_exact::<8>();
    }
    #[cfg(quantus_network_qp_zk_circuits_verif)]
    #[kani::proof]
    #[kani::unwind(10)]
    #[kani::stub(alloc::fmt::format, fmt_stub)]
    #[kani::stub(qp_poseidon_core::hash_to_bytes, hash_model)]
    fn compact_hash_domain_len_9() {
        compact_hash_exact::<9>();
    }
    #[cfg(quantus_network_qp_zk_circuits_verif)]
    #[kani::proof]
    #[kani::unwind(10)]
    #[kani::stub(alloc::fmt::format, fmt_stub)]
    #[kani::stub(qp_poseidon_core::hash_to_bytes, hash_model)]
    fn compact_hash_domain_len_16() {
        compact_hash_exact::<16>();
    }
    #[cfg(quantus_network_qp_zk_circuits_verif)]
    #[kani::proof]
    #[kani::unwind(10)]
    #[kani::stub(alloc::fmt::format, fmt_stub)]
    #[kani::stub(qp_poseidon_core::hash_to_bytes, hash_model)]
    fn compact_hash_domain_len_24() {
        compact_hash_exact::<24>();
    }

    // ========================================================================== C26 node hashing
    #[kani::proof]
    #[kani::unwind(34)]
    #[kani::stub(alloc::fmt::format, fmt_stub)]
    #[kani::stub(qp_poseidon_core::hash_to_bytes, hash_model)]
    fn node_hash_errors_on_noncanonical_child_and_matches_presorted() {
        // each child: symbolic first limb (8 bytes, any value incl. >= p), remaining 24 bytes zero (stated bound)
        let mut c = [[0u8; 32]; 4];
        let mut k = 0;
        while k < 4 {
            let v: u64 = kani::any();
            let le = v.to_le_bytes();
            let mut j = 0;
            while j < 8 {
                c[k][j] = le[j];
                j += 1;
            }
            k += 1;
        }
        let all_canon = canonical32(&c[0]) && canonical32(&c[1]) && canonical32(&c[2]) && canonical32(&c[3]);
        let r = zm::hash_node(&c);
        assert_eq!(r.is_ok(), all_canon);
        kani::cover!(r.is_ok());
        kani::cover!(r.is_err());
        if r.is_ok() {
            let pre1: [u64; 16] = unsafe { LAST_PRE };
            // the preimage is the ascending arrangement of the four children (byte-lexicographic)
            let mut k = 0;
            while k < 3 {
                let a = [pre1[4 * k], pre1[4 * k + 1], pre1[4 * k + 2], pre1[4 * k + 3]];
                let b = [pre1[4 * k + 4], pre1[4 * k + 5], pre1[4 * k + 6], pre1[4 * k + 7]];
                let mut ab = [0u8; 32];
                let mut bb = [0u8; 32];
                let mut i = 0;
                while i < 4 {
                    let (la, lb) = (a[i].to_le_bytes(), b[i].to_le_bytes());
                    let mut j = 0;
                    while j < 8 {
                        ab[8 * i + j] = la[j];
                        bb[8 * i + j] = lb[j];
                        j += 1;
                    }
                    i += 1;
                }
                assert!(ab <= bb);
                k += 1;
            }
            // order independence: any rotation/swap of the children gives the same preimage
            let i: usize = kani::any();
            let j: usize = kani::any();
            kani::assume(i < 4 && j < 4);
            let mut d = c;
            d.swap(i, j);
            let r2 = zm::hash_node(&d);
            assert!(r2.is_ok());
            let pre2: [u64; 16] = unsafe { LAST_PRE };
            let mut q = 0;
            while q < 16 {
                assert!(pre1[q] == pre2[q]);
                q += 1;
            }
            let (h1, h2) = (r.unwrap(), r2.unwrap());
            assert!(limb(&h1, 0) == limb(&h2, 0) && limb(&h1, 1) == limb(&h2, 1) && limb(&h1, 2) == limb(&h2, 2) && limb(&h1, 3) == limb(&h2, 3));
        }
    }

    // ========================================================================== C27 native Merkle
    fn ref_fold(leaf: [u8; 32], sibs: &[[[u8; 32]; 3]], pos: &[u8]) -> Option<[u8; 32]> {
        let mut cur = leaf;
        let mut l = 0;
        while l < sibs.len() {
            let s = &sibs[l];
            let ch: [[u8; 32]; 4] = match pos[l] {
                0 => [cur, s[0], s[1], s[2]],
                1 => [s[0], cur, s[1], s[2]],
                2 => [s[0], s[1], cur, s[2]],
                3 => [s[0], s[1], s[2], cur],
                _ => return None,
            };
            let mut pre = [Goldilocks::new(0); 16];
            let mut k = 0;
            while k < 16 {
                pre[k] = Goldilocks::new(limb(&ch[k / 4], k % 4));
                k += 1;
            }
            cur = hash_model(&pre);
            l += 1;
        }
        Some(cur)
    }

    /// depth fixed per harness (concrete loop bounds); hashes: symbolic first limb, other limbs zero; root fully symbolic
    fn native_verify_exact<const DEPTH: usize>() {
        let leaf = first_limb_hash();
        let root: [u8; 32] = kani::any();
        let mut siblings: Vec<[[u8; 32]; 3]> = Vec::with_capacity(DEPTH);
        let mut sib_arr = [[[0u8; 32]; 3]; DEPTH];
        let mut positions: Vec<u8> = Vec::with_capacity(DEPTH);
        let mut pos_arr = [0u8; DEPTH];
        let mut i = 0;
        while i < DEPTH {
            sib_arr[i] = [first_limb_hash(), first_limb_hash(), first_limb_hash()];
            siblings.push(sib_arr[i]);
            pos_arr[i] = kani::any();
            positions.push(pos_arr[i]);
            i += 1;
        }
        let proof = zm::ZkMerkleProof::new(0, siblings, positions, leaf, root);
        let got = proof.verify_with_positions();
        let mut expect = canonical32(&leaf);
        let mut i = 0;
        while i < DEPTH {
            expect = expect && canonical32(&sib_arr[i][0]) && canonical32(&sib_arr[i][1]) && canonical32(&sib_arr[i][2]);
            i += 1;
        }
        if expect {
            match ref_fold(leaf, &sib_arr, &pos_arr) {
                Some(r) => {
                    expect = limb(&r, 0) == limb(&root, 0) && limb(&r, 1) == limb(&root, 1) && limb(&r, 2) == limb(&root, 2) && limb(&r, 3) == limb(&root, 3)
                }
                None => expect = false,
            }
        }
        if DEPTH == 1 {
            // diagnostics split by direction
            assert!(!got || expect, "accepted but the reference rejects");
            assert!(!expect || got, "reference accepts but rejected");
        }
        assert_eq!(got, expect);
        kani::cover!(got);
        kani::cover!(!got);
        core::mem::forget(proof);
    }

    #[kani::proof]
    #[kani::unwind(34)]
    #[kani::stub(alloc::fmt::format, fmt_stub)]
    #[kani::stub(qp_poseidon_core::hash_to_bytes, hash_model)]
    fn native_verify_exact_depth_0() {
        native_verify_exact::<0>();
    }

    #[kani::proof]
    #[kani::unwind(34)]
    #[kani::stub(alloc::fmt::format, fmt_stub)]
    #[kani::stub(qp_poseidon_core::hash_to_bytes, hash_model)]
    fn native_verify_exact_depth_1() {
        native_verify_exact::<1>();
    }

    #[kani::proof]
    #[kani::unwind(34)]
    #[kani::stub(alloc::fmt::format, fmt_stub)]
    #[kani::stub(qp_poseidon_core::hash_to_bytes, hash_model)]
    fn probe_presorted_vs_model() {
        let ch = [any_canonical_first(), any_canonical_first(), any_canonical_first(), any_canonical_first()];
        let r = zm::hash_node_presorted(&ch);
        assert!(r.is_ok());
        let calls_after_real = unsafe { CALLS };
        assert!(calls_after_real == 1);
        let mut pre = [Goldilocks::new(0); 16];
        let mut k = 0;
        while k < 16 {
            pre[k] = Goldilocks::new(limb(&ch[k / 4], k % 4));
            unsafe {
                assert!(LAST_PRE[k] == limb(&ch[k / 4], k % 4));
            }
            k += 1;
        }
        let m = hash_model(&pre);
        let h = r.unwrap();
        assert!(limb(&h, 0) == limb(&m, 0));
        assert!(limb(&h, 1) == limb(&m, 1));
    }
    fn any_canonical_first() -> [u8; 32] {
        let h = first_limb_hash();
        kani::assume(limb(&h, 0) < P);
        h
    }

    /// position count != sibling count is rejected (length-only)
    #[kani::proof]
    #[kani::unwind(34)]
    fn native_verify_rejects_position_count_mismatch() {
        let leaf = [0u8; 32];
        let mut siblings: Vec<[[u8; 32]; 3]> = Vec::with_capacity(1);
        siblings.push([[0u8; 32]; 3]);
        let positions: Vec<u8> = Vec::new();
        let proof = zm::ZkMerkleProof::new(0, siblings, positions, leaf, leaf);
        assert!(!proof.verify_with_positions());
        core::mem::forget(proof);
    }

    #[kani::proof]
    #[kani::unwind(20)]
    fn native_verify_rejects_depth_17_by_length_alone() {
        let leaf = [0u8; 32];
        let mut siblings: Vec<[[u8; 32]; 3]> = Vec::with_capacity(17);
        let mut positions: Vec<u8> = Vec::with_capacity(17);
        let mut i = 0;
        while i < 17 {
            siblings.push([[0u8; 32]; 3]);
            positions.push(0);
            i += 1;
        }
        assert!(zm::MAX_DEPTH == 16);
        let proof = zm::ZkMerkleProof::new(0, siblings, positions, leaf, leaf);
        assert!(!proof.verify_with_positions());
        core::mem::forget(proof);
    }

    #[kani::proof]
    #[kani::unwind(6)]
    fn insert_at_position_exact() {
        let cur: [u8; 32] = kani::any();
        let s: [[u8; 32]; 3] = kani::any();
        let p: u8 = kani::any();
        let r = zm::insert_at_position(cur, &s, p);
        assert_eq!(r.is_ok(), p <= 3);
        if let Ok(ch) = r {
            let k = p as usize;
            let b: usize = kani::any();
            kani::assume(b < 32);
            assert!(ch[k][b] == cur[b]);
            let i: usize = kani::any();
            kani::assume(i < 4 && i != k);
            let src = if i < k { i } else { i - 1 };
            assert!(ch[i][b] == s[src][b]);
        }
        kani::cover!(p == 3);
        kani::cover!(p == 4);
    }

    // ========================================================================== C28 config policy
    #[kani::proof]
    #[kani::stub(alloc::fmt::format, fmt_stub)]
    fn circuit_config_policy_is_exactly_the_documented_conjunction() {
        let mut c = CircuitConfig::standard_recursion_config();
        c.num_challenges = kani::any();
        c.security_bits = kani::any();
        c.fri_config.num_query_rounds = kani::any();
        c.num_wires = kani::any();
        c.num_routed_wires = kani::any();
        c.max_quotient_degree_factor = kani::any();
        c.fri_config.rate_bits = kani::any();
        c.fri_config.cap_height = kani::any();
        c.fri_config.proof_of_work_bits = kani::any();
        c.num_constants = kani::any();
        c.zero_knowledge = kani::any();
        let q = c.max_quotient_degree_factor;
        // ceil(log2(q)) without leading_zeros: smallest b with 2^b >= q  (q >= 7 on the accepting side)
        let rate = c.fri_config.rate_bits;
        let rate_covers_q = rate <= 8 && (q as u128) <= (1u128 << rate);
        let expect = c.num_challenges > 0 && c.security_bits > 0 && c.fri_config.num_query_rounds > 0
            && c.num_wires >= 135 && c.num_routed_wires >= 37 && c.num_routed_wires <= c.num_wires
            && q >= 7 && rate <= 8 && c.fri_config.cap_height <= 8 && rate_covers_q;
        let r = validate_circuit_config(&c);
        assert_eq!(r.is_ok(), expect);
        kani::cover!(r.is_ok());
        kani::cover!(r.is_ok() && q == 256 && rate == 8);
        kani::cover!(r.is_err() && q == 9 && rate == 3);
        kani::cover!(r.is_ok() && q == 8 && rate == 3);
        core::mem::forget(c);
    }
}
