//! Abstraction of qp-wormhole-inputs for the pool harness build only: a digest is an opaque 64-bit
//! identity (the pool only ever copies, compares, orders and hashes digests), and the proof-count
//! bound is the same 1..=64 rule as the real crate (that rule itself is verified on the real crate
//! by the C29 harnesses).
#![no_std]
pub const MAX_PROOF_COUNT: usize = 64;
pub const DIGEST_BYTES_LEN: usize = 32;
#[derive(Hash, Default, Clone, Copy, PartialEq, Eq, Ord, PartialOrd, Debug)]
pub struct BytesDigest(pub u64);
pub fn validate_proof_count(count: usize, _label: &str) -> anyhow::Result<()> {
    if count == 0 {
        anyhow::bail!("must be > 0");
    }
    if count > MAX_PROOF_COUNT {
        anyhow::bail!("exceeds maximum");
    }
    Ok(())
}
