//! Minimal stand-in for the two items of qp-zk-circuits-common that pool.rs names (harness build only).
pub mod circuit {
    pub const D: usize = 2;
    #[derive(Debug, Clone, Copy, PartialEq, Eq)]
    pub struct C;
    /// Goldilocks element holding a possibly non-canonical u64, like plonky2's GoldilocksField
    #[derive(Debug, Clone, Copy, PartialEq, Eq, Default)]
    pub struct F(pub u64);
    impl plonky2::field::types::PrimeField64 for F {
        fn to_canonical_u64(&self) -> u64 {
            const P: u64 = 0xFFFF_FFFF_0000_0001;
            if self.0 >= P {
                self.0 - P
            } else {
                self.0
            }
        }
    }
}
pub mod utils {
    use super::circuit::F;
    use plonky2::field::types::PrimeField64;
    use qp_wormhole_inputs::BytesDigest;
    /// abstraction of common/src/utils.rs::try_4_felts_to_bytes: length check as in the real function;
    /// the digest identity is the first canonical limb (the harness only varies that limb)
    pub fn try_4_felts_to_bytes(value: &[F]) -> anyhow::Result<BytesDigest> {
        if value.len() != 4 {
            return Err(anyhow::Error::msg_static("expected 4 felts"));
        }
        Ok(BytesDigest(value[0].to_canonical_u64()))
    }
}
