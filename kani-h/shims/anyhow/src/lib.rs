//! Minimal heap-free stand-in for `anyhow` used ONLY by the Kani harness builds (verification
//! facade): it keeps the control flow of `bail!/ensure!/anyhow!/Context` and drops the formatted
//! message (a static tag instead), so error paths do not drag `alloc::fmt` into CBMC.
#![no_std]
#[derive(Debug, Clone, Copy)]
pub struct Error {
    pub tag: &'static str,
}
impl Error {
    pub fn msg_static(tag: &'static str) -> Self {
        Error { tag }
    }
    pub fn msg<M>(_m: M) -> Self {
        Error { tag: "msg" }
    }
    pub fn context<C>(self, _c: C) -> Self {
        self
    }
}
impl core::fmt::Display for Error {
    fn fmt(&self, f: &mut core::fmt::Formatter<'_>) -> core::fmt::Result {
        f.write_str(self.tag)
    }
}
pub type Result<T, E = Error> = core::result::Result<T, E>;
impl<E> From<E> for Error
where
    E: core::error::Error,
{
    fn from(_: E) -> Self {
        Error { tag: "from" }
    }
}
#[macro_export]
macro_rules! anyhow {
    ($fmt:literal $(, $($args:tt)*)?) => { $crate::Error::msg_static($fmt) };
    ($e:expr) => { $crate::Error::msg_static("expr") };
}
#[macro_export]
macro_rules! bail {
    ($($t:tt)*) => { return ::core::result::Result::Err($crate::anyhow!($($t)*)) };
}
#[macro_export]
macro_rules! ensure {
    ($c:expr $(,)?) => { if !($c) { return ::core::result::Result::Err($crate::Error::msg_static("ensure")); } };
    ($c:expr, $($t:tt)*) => { if !($c) { $crate::bail!($($t)*); } };
}
pub trait Context<T> {
    fn context<C>(self, c: C) -> Result<T>;
    fn with_context<C, F: FnOnce() -> C>(self, f: F) -> Result<T>;
}
impl<T, E> Context<T> for core::result::Result<T, E> {
    fn context<C>(self, _c: C) -> Result<T> {
        match self {
            Ok(v) => Ok(v),
            Err(_) => Err(Error { tag: "ctx" }),
        }
    }
    fn with_context<C, F: FnOnce() -> C>(self, _f: F) -> Result<T> {
        match self {
            Ok(v) => Ok(v),
            Err(_) => Err(Error { tag: "ctx" }),
        }
    }
}
impl<T> Context<T> for Option<T> {
    fn context<C>(self, _c: C) -> Result<T> {
        self.ok_or(Error { tag: "ctx" })
    }
    fn with_context<C, F: FnOnce() -> C>(self, _f: F) -> Result<T> {
        self.ok_or(Error { tag: "ctx" })
    }
}
