//! `std` facade for the Kani harness builds of UNMODIFIED repo files (`extern crate vstd as std`).
//! Everything is the real std except:
//!   * `std::time::{Instant, Duration}`  -> virtual clock in nanoseconds, advanced only by the harness
//!   * `std::collections::{BTreeMap, HashMap, HashSet}` -> small vector-backed models with the API
//!     subset the included files use (BTreeMap keeps keys sorted, like the real one)
//!   * `format!/println!/eprintln!` -> no fmt machinery (messages are not the subject)
pub use ::std::{alloc, any, array, borrow, boxed, cell, char, clone, cmp, convert, default, env, error, ffi, fmt, hash, hint, io, iter, marker, mem, num, ops, option, panic, path, pin, primitive, process, ptr, rc, result, slice, str, string, sync, thread, vec};
pub use ::std::{assert_eq, assert_ne, debug_assert, debug_assert_eq, matches, todo, unimplemented, unreachable, write, writeln};
#[macro_export]
macro_rules! format { ($fmt:literal $(, $($args:tt)*)?) => {{ $crate::string::String::new() }}; }
#[macro_export]
macro_rules! println { ($($t:tt)*) => {{}}; }
#[macro_export]
macro_rules! eprintln { ($($t:tt)*) => {{}}; }
pub mod prelude {
    pub mod rust_2021 {
        pub use ::std::prelude::rust_2021::*;
        pub use ::std::vec;
        pub use crate::{eprintln, format, println};
    }
}

pub mod time {
    /// nanoseconds since the harness' epoch
    pub static mut NOW_NANOS: u64 = 0;
    pub fn verif_now() -> u64 {
        unsafe { NOW_NANOS }
    }
    pub fn verif_set_now(t: u64) {
        unsafe { NOW_NANOS = t }
    }
    #[derive(Debug, Clone, Copy, PartialEq, Eq, PartialOrd, Ord, Default, Hash)]
    pub struct Duration(pub u64);
    impl Duration {
        pub const fn from_secs(s: u64) -> Self {
            Duration(s.saturating_mul(1_000_000_000))
        }
        pub const fn from_millis(s: u64) -> Self {
            Duration(s.saturating_mul(1_000_000))
        }
        pub const fn from_nanos(n: u64) -> Self {
            Duration(n)
        }
        pub const fn is_zero(&self) -> bool {
            self.0 == 0
        }
        pub const fn as_nanos(&self) -> u128 {
            self.0 as u128
        }
    }
    #[derive(Debug, Clone, Copy, PartialEq, Eq, PartialOrd, Ord, Hash)]
    pub struct Instant(pub u64);
    impl Instant {
        pub fn now() -> Self {
            Instant(verif_now())
        }
        /// like std: a later `earlier` saturates to zero
        pub fn duration_since(&self, earlier: Instant) -> Duration {
            Duration(self.0.saturating_sub(earlier.0))
        }
        pub fn saturating_duration_since(&self, earlier: Instant) -> Duration {
            Duration(self.0.saturating_sub(earlier.0))
        }
    }
}

pub mod collections {
    use ::std::vec::Vec;

    // ------------------------------------------------------------------ HashMap
    #[derive(Debug, Clone)]
    pub struct HashMap<K, V> {
        pub items: Vec<(K, V)>,
    }
    impl<K, V> Default for HashMap<K, V> {
        fn default() -> Self {
            Self { items: Vec::new() }
        }
    }
    impl<K: PartialEq, V> HashMap<K, V> {
        pub fn new() -> Self {
            Self { items: Vec::new() }
        }
        pub fn len(&self) -> usize {
            self.items.len()
        }
        pub fn is_empty(&self) -> bool {
            self.items.is_empty()
        }
        fn pos(&self, k: &K) -> Option<usize> {
            let mut i = 0;
            while i < self.items.len() {
                if self.items[i].0 == *k {
                    return Some(i);
                }
                i += 1;
            }
            None
        }
        pub fn contains_key(&self, k: &K) -> bool {
            self.pos(k).is_some()
        }
        pub fn get(&self, k: &K) -> Option<&V> {
            match self.pos(k) {
                Some(i) => Some(&self.items[i].1),
                None => None,
            }
        }
        pub fn insert(&mut self, k: K, v: V) -> Option<V> {
            match self.pos(&k) {
                Some(i) => Some(core::mem::replace(&mut self.items[i].1, v)),
                None => {
                    self.items.push((k, v));
                    None
                }
            }
        }
        pub fn remove(&mut self, k: &K) -> Option<V> {
            match self.pos(k) {
                Some(i) => Some(self.items.swap_remove(i).1),
                None => None,
            }
        }
        pub fn entry(&mut self, k: K) -> HEntry<'_, K, V> {
            match self.pos(&k) {
                Some(i) => HEntry::Occupied(HOccupied { map: self, idx: i }),
                None => HEntry::Vacant(HVacant { map: self, key: k }),
            }
        }
    }
    pub enum HEntry<'a, K, V> {
        Occupied(HOccupied<'a, K, V>),
        Vacant(HVacant<'a, K, V>),
    }
    pub struct HOccupied<'a, K, V> {
        map: &'a mut HashMap<K, V>,
        idx: usize,
    }
    pub struct HVacant<'a, K, V> {
        map: &'a mut HashMap<K, V>,
        key: K,
    }
    impl<'a, K, V> HOccupied<'a, K, V> {
        pub fn get(&self) -> &V {
            &self.map.items[self.idx].1
        }
        pub fn key(&self) -> &K {
            &self.map.items[self.idx].0
        }
    }
    impl<'a, K, V> HVacant<'a, K, V> {
        pub fn insert(self, v: V) -> &'a mut V {
            self.map.items.push((self.key, v));
            let n = self.map.items.len() - 1;
            &mut self.map.items[n].1
        }
    }
    pub mod hash_map {
        pub use super::HEntry as Entry;
    }

    // ------------------------------------------------------------------ HashSet
    #[derive(Debug, Clone)]
    pub struct HashSet<T> {
        pub items: Vec<T>,
    }
    impl<T> Default for HashSet<T> {
        fn default() -> Self {
            Self { items: Vec::new() }
        }
    }
    impl<T: PartialEq> HashSet<T> {
        pub fn new() -> Self {
            Self { items: Vec::new() }
        }
        pub fn len(&self) -> usize {
            self.items.len()
        }
        pub fn is_empty(&self) -> bool {
            self.items.is_empty()
        }
        pub fn contains(&self, t: &T) -> bool {
            let mut i = 0;
            while i < self.items.len() {
                if self.items[i] == *t {
                    return true;
                }
                i += 1;
            }
            false
        }
        pub fn insert(&mut self, t: T) -> bool {
            if self.contains(&t) {
                false
            } else {
                self.items.push(t);
                true
            }
        }
        pub fn iter(&self) -> core::slice::Iter<'_, T> {
            self.items.iter()
        }
    }
    impl<T: PartialEq> FromIterator<T> for HashSet<T> {
        fn from_iter<I: IntoIterator<Item = T>>(it: I) -> Self {
            let mut s = HashSet::new();
            for x in it {
                s.insert(x);
            }
            s
        }
    }
    impl<T> IntoIterator for HashSet<T> {
        type Item = T;
        type IntoIter = ::std::vec::IntoIter<T>;
        fn into_iter(self) -> Self::IntoIter {
            self.items.into_iter()
        }
    }
    impl<'a, T> IntoIterator for &'a HashSet<T> {
        type Item = &'a T;
        type IntoIter = core::slice::Iter<'a, T>;
        fn into_iter(self) -> Self::IntoIter {
            self.items.iter()
        }
    }

    // ------------------------------------------------------------------ BTreeMap (sorted vector)
    #[derive(Debug, Clone)]
    pub struct BTreeMap<K, V> {
        pub items: Vec<(K, V)>,
    }
    impl<K, V> Default for BTreeMap<K, V> {
        fn default() -> Self {
            Self { items: Vec::new() }
        }
    }
    impl<K: Ord, V> BTreeMap<K, V> {
        pub fn new() -> Self {
            Self { items: Vec::new() }
        }
        pub fn len(&self) -> usize {
            self.items.len()
        }
        pub fn is_empty(&self) -> bool {
            self.items.is_empty()
        }
        fn pos(&self, k: &K) -> Option<usize> {
            let mut i = 0;
            while i < self.items.len() {
                if self.items[i].0 == *k {
                    return Some(i);
                }
                i += 1;
            }
            None
        }
        pub fn contains_key(&self, k: &K) -> bool {
            self.pos(k).is_some()
        }
        pub fn get(&self, k: &K) -> Option<&V> {
            match self.pos(k) {
                Some(i) => Some(&self.items[i].1),
                None => None,
            }
        }
        pub fn get_mut(&mut self, k: &K) -> Option<&mut V> {
            match self.pos(k) {
                Some(i) => Some(&mut self.items[i].1),
                None => None,
            }
        }
        pub fn insert(&mut self, k: K, v: V) -> Option<V> {
            if let Some(i) = self.pos(&k) {
                return Some(core::mem::replace(&mut self.items[i].1, v));
            }
            self.items.push((k, v));
            let mut at = self.items.len() - 1;
            while at > 0 && self.items[at].0 < self.items[at - 1].0 {
                self.items.swap(at, at - 1);
                at -= 1;
            }
            None
        }
        pub fn remove(&mut self, k: &K) -> Option<V> {
            match self.pos(k) {
                Some(i) => Some(self.items.remove(i).1),
                None => None,
            }
        }
        pub fn values(&self) -> impl Iterator<Item = &V> {
            self.items.iter().map(|(_, v)| v)
        }
        pub fn keys(&self) -> impl Iterator<Item = &K> {
            self.items.iter().map(|(k, _)| k)
        }
        pub fn iter(&self) -> impl Iterator<Item = (&K, &V)> {
            self.items.iter().map(|(k, v)| (k, v))
        }
        pub fn retain<F: FnMut(&K, &mut V) -> bool>(&mut self, mut f: F) {
            self.items.retain_mut(|(k, v)| f(k, v));
        }
        pub fn entry(&mut self, k: K) -> BEntry<'_, K, V> {
            BEntry { map: self, key: k }
        }
    }
    pub struct BEntry<'a, K, V> {
        map: &'a mut BTreeMap<K, V>,
        key: K,
    }
    impl<'a, K: Ord, V: Default> BEntry<'a, K, V> {
        pub fn or_default(self) -> &'a mut V {
            let idx = match self.map.pos(&self.key) {
                Some(i) => i,
                None => {
                    // append, then bubble the new pair down to its sorted position (swaps only: no memmove)
                    self.map.items.push((self.key, V::default()));
                    let mut at = self.map.items.len() - 1;
                    while at > 0 && self.map.items[at].0 < self.map.items[at - 1].0 {
                        self.map.items.swap(at, at - 1);
                        at -= 1;
                    }
                    at
                }
            };
            &mut self.map.items[idx].1
        }
    }
}
