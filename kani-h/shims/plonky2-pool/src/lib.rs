//! Minimal stand-in for the parts of plonky2 that wormhole/aggregator/src/pool.rs names
//! (harness build only): a proof is (public inputs, nondeterministic validity bit); `verify`
//! returns that bit and counts calls.
pub const MAX_PIS: usize = 50;
pub mod field {
    pub mod types {
        pub trait PrimeField64 {
            fn to_canonical_u64(&self) -> u64;
        }
    }
}
pub mod plonk {
    pub mod proof {
        /// fixed-capacity public-input vector (derefs to a slice, cloned by plain copy)
        #[derive(Clone, Copy, Debug)]
        pub struct Pis<F: Copy> {
            pub data: [F; crate::MAX_PIS],
            pub len: usize,
        }
        impl<F: Copy> core::ops::Deref for Pis<F> {
            type Target = [F];
            fn deref(&self) -> &[F] {
                &self.data[..self.len]
            }
        }
        #[derive(Clone, Debug)]
        pub struct ProofWithPublicInputs<F: Copy, C, const D: usize> {
            pub public_inputs: Pis<F>,
            /// what the real cryptographic verifier would answer for this proof
            pub valid: bool,
            /// identity tag so the harness can recognise returned clones
            pub id: u32,
            pub _c: core::marker::PhantomData<C>,
        }
    }
    pub mod circuit_data {
        use super::proof::ProofWithPublicInputs;
        pub static mut VERIFY_CALLS: usize = 0;
        pub fn verify_calls() -> usize {
            unsafe { VERIFY_CALLS }
        }
        #[derive(Debug)]
        pub struct CommonCircuitData {
            pub num_public_inputs: usize,
        }
        #[derive(Debug)]
        pub struct VerifierCircuitData<F, C, const D: usize> {
            pub common: CommonCircuitData,
            pub _p: core::marker::PhantomData<(F, C)>,
        }
        impl<F: Copy, C, const D: usize> VerifierCircuitData<F, C, D> {
            pub fn verify(&self, proof: ProofWithPublicInputs<F, C, D>) -> anyhow::Result<()> {
                unsafe {
                    VERIFY_CALLS += 1;
                }
                if proof.valid {
                    Ok(())
                } else {
                    Err(anyhow::Error::msg_static("invalid proof"))
                }
            }
        }
    }
}
