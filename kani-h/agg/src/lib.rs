//! Kani harnesses over the UNMODIFIED batch preflight predicates of qp-wormhole-aggregator (real crate
//! as path dependency, real qp-plonky2 proof types; anyhow shim; fmt stubbed).
//! Oracle: the acceptance condition the wrapper circuits are PROVED to have by the CSX checks C07 / C13
//! (A_priv, A_pub below are the Rust twins of csx/wrappers.py `A_parts`) plus the documented
//! "at least one real proof" policy. "commit accepts => provable" needs preflight => A.
extern crate alloc;
#[cfg(kani)]
mod proofs {
    use alloc::string::String;
    use alloc::vec::Vec;
    use plonky2::field::extension::Extendable;
    use plonky2::field::polynomial::PolynomialCoeffs;
    use plonky2::field::types::{Field, PrimeField64};
    use plonky2::fri::proof::FriProof;
    use plonky2::hash::merkle_tree::MerkleCap;
    use plonky2::plonk::proof::{OpeningSet, Proof, ProofWithPublicInputs};
    use wormhole_aggregator::private_batch::prover::lib::verif_ensure_leaf_batch_compatible;
    use wormhole_aggregator::public_batch::prover::lib::verif_ensure_private_batch_compatible;
    use zk_circuits_common::circuit::{C, D, F};

    const P: u64 = 0xFFFF_FFFF_0000_0001;
    fn fmt_stub(_args: core::fmt::Arguments<'_>) -> String {
        String::new()
    }
    /// fixed SipHash keys for std's HashMap (the per-process random keys are not the subject and would make
    /// every bucket index symbolic)
    fn fixed_state() -> std::hash::RandomState {
        unsafe { core::mem::transmute::<[u64; 2], std::hash::RandomState>([0x0123_4567_89ab_cdef, 0x0f1e_2d3c_4b5a_6978]) }
    }
    type Ext = <F as Extendable<D>>::Extension;
    fn shell(pis: Vec<F>) -> ProofWithPublicInputs<F, C, D> {
        ProofWithPublicInputs {
            proof: Proof {
                wires_cap: MerkleCap(Vec::new()),
                plonk_zs_partial_products_cap: MerkleCap(Vec::new()),
                quotient_polys_cap: MerkleCap(Vec::new()),
                openings: OpeningSet {
                    constants: Vec::new(),
                    plonk_sigmas: Vec::new(),
                    wires: Vec::new(),
                    plonk_zs: Vec::new(),
                    plonk_zs_next: Vec::new(),
                    partial_products: Vec::new(),
                    quotient_polys: Vec::new(),
                    lookup_zs: Vec::new(),
                    lookup_zs_next: Vec::new(),
                },
                opening_proof: FriProof {
                    commit_phase_merkle_caps: Vec::new(),
                    query_round_proofs: Vec::new(),
                    final_poly: PolynomialCoeffs { coeffs: Vec::<Ext>::new() },
                    pow_witness: F::ZERO,
                },
            },
            public_inputs: pis,
        }
    }

    // leaf public-input layout (documented): asset 0, out1 1, out2 2, fee 3, nullifier 4..8, exit1 8..12, exit2 12..16, block hash 16..20, number 20
    #[derive(Clone, Copy)]
    struct Leaf {
        v: [u64; 21],
    }
    fn any_leaf() -> Leaf {
        let v: [u64; 21] = kani::any();
        let mut i = 0;
        while i < 21 {
            kani::assume(v[i] < P); // public inputs of a verified proof are canonical
            i += 1;
        }
        // what the leaf circuit guarantees about every statement (C01)
        kani::assume(v[0] <= u32::MAX as u64 && v[1] <= u32::MAX as u64 && v[2] <= u32::MAX as u64 && v[3] <= 10000 && v[20] <= u32::MAX as u64);
        Leaf { v }
    }
    fn real(l: &Leaf) -> bool {
        !(l.v[16] == 0 && l.v[17] == 0 && l.v[18] == 0 && l.v[19] == 0)
    }
    fn eq4(a: &[u64], b: &[u64]) -> bool {
        a[0] == b[0] && a[1] == b[1] && a[2] == b[2] && a[3] == b[3]
    }
    /// masked (account, amount) of exit slot k (2 per leaf)
    fn slot(ls: &[Leaf], k: usize) -> ([u64; 4], u64) {
        let l = &ls[k / 2];
        if !real(l) {
            return ([0; 4], 0);
        }
        if k % 2 == 0 {
            ([l.v[8], l.v[9], l.v[10], l.v[11]], l.v[1])
        } else {
            ([l.v[12], l.v[13], l.v[14], l.v[15]], l.v[2])
        }
    }
    /// the private wrapper's acceptance condition (C07), N leaves
    fn a_priv(ls: &[Leaf]) -> bool {
        let n = ls.len();
        let mut i = 0;
        while i < n {
            if ls[i].v[0] != ls[0].v[0] {
                return false;
            }
            i += 1;
        }
        let mut first: Option<usize> = None;
        let mut i = 0;
        while i < n {
            if real(&ls[i]) {
                match first {
                    None => first = Some(i),
                    Some(f) => {
                        if !eq4(&ls[i].v[16..20], &ls[f].v[16..20]) || ls[i].v[3] != ls[f].v[3] {
                            return false;
                        }
                    }
                }
                let mut j = 0;
                while j < i {
                    if real(&ls[j]) && eq4(&ls[j].v[4..8], &ls[i].v[4..8]) {
                        return false;
                    }
                    j += 1;
                }
            }
            i += 1;
        }
        let mut k = 0;
        while k < 2 * n {
            let (acct, _) = slot(ls, k);
            let mut tot: u64 = 0;
            let mut j = 0;
            while j < 2 * n {
                let (a2, m2) = slot(ls, j);
                if eq4(&a2, &acct) {
                    tot += m2;
                }
                j += 1;
            }
            if tot > u32::MAX as u64 {
                return false;
            }
            k += 1;
        }
        true
    }

    fn to_pis(l: &Leaf) -> Vec<F> {
        // no loop: keeps the global unwind bound small
        Vec::from([F::from_canonical_u64(l.v[0]), F::from_canonical_u64(l.v[1]), F::from_canonical_u64(l.v[2]), F::from_canonical_u64(l.v[3]), F::from_canonical_u64(l.v[4]), F::from_canonical_u64(l.v[5]), F::from_canonical_u64(l.v[6]), F::from_canonical_u64(l.v[7]), F::from_canonical_u64(l.v[8]), F::from_canonical_u64(l.v[9]), F::from_canonical_u64(l.v[10]), F::from_canonical_u64(l.v[11]), F::from_canonical_u64(l.v[12]), F::from_canonical_u64(l.v[13]), F::from_canonical_u64(l.v[14]), F::from_canonical_u64(l.v[15]), F::from_canonical_u64(l.v[16]), F::from_canonical_u64(l.v[17]), F::from_canonical_u64(l.v[18]), F::from_canonical_u64(l.v[19]), F::from_canonical_u64(l.v[20])])
    }

    /// Same claim with the two nullifiers concrete per case (the preflight looks at nullifiers only through
    /// hash-map equality; symbolic keys would put SipHash of symbolic data into the formula): every other
    /// field of both statements is symbolic.
    /// statement with symbolic asset, both amounts, fee, first limb of both exit accounts and of the block
    /// hash; every other felt zero (stated bound)
    fn any_leaf_small() -> Leaf {
        let mut v = [0u64; 21];
        v[0] = kani::any();
        v[1] = kani::any();
        v[2] = kani::any();
        v[3] = kani::any();
        v[8] = kani::any();
        v[12] = kani::any();
        v[16] = kani::any();
        kani::assume(v[0] <= 1 && v[1] <= u32::MAX as u64 && v[2] <= u32::MAX as u64 && v[3] <= 10000);
        kani::assume(v[8] < P && v[12] < P && v[16] < P);
        Leaf { v }
    }

    fn private_preflight_case(n0: [u64; 4], n1: [u64; 4]) {
        let mut ls = [any_leaf_small(), any_leaf_small()];
        let mut j = 0;
        while j < 4 {
            ls[0].v[4 + j] = n0[j];
            ls[1].v[4 + j] = n1[j];
            j += 1;
        }
        let proofs = [shell(to_pis(&ls[0])), shell(to_pis(&ls[1]))];
        let got = verif_ensure_leaf_batch_compatible(&proofs).is_ok();
        let any_real = real(&ls[0]) || real(&ls[1]);
        let expect = a_priv(&ls) && any_real;
        assert!(got == expect);
        kani::cover!(got);
        kani::cover!(!got && any_real);
        core::mem::forget(proofs);
    }

    #[kani::proof]
    #[kani::unwind(8)]
    #[kani::stub(alloc::fmt::format, fmt_stub)]
    #[kani::stub(std::hash::RandomState::new, fixed_state)]
    fn private_preflight_exact_n2_distinct_nullifiers() {
        private_preflight_case([11, 0, 5, 0], [11, 0, 6, 0]);
    }

    #[kani::proof]
    #[kani::unwind(8)]
    #[kani::stub(alloc::fmt::format, fmt_stub)]
    #[kani::stub(std::hash::RandomState::new, fixed_state)]
    fn private_preflight_exact_n2_equal_nullifiers() {
        private_preflight_case([11, 0, 5, 7], [11, 0, 5, 7]);
    }

    /// C14 (private layer): the commit preflight accepts a vector of verified leaf statements ONLY IF the
    /// wrapper circuit can be satisfied for it (and a real proof is present), and rejects nothing else.
    #[kani::proof]
    #[kani::unwind(36)]
    #[kani::stub(alloc::fmt::format, fmt_stub)]
    fn private_preflight_accepts_exactly_provable_batches_n2() {
        let ls = [any_leaf(), any_leaf()];
        let proofs = [shell(to_pis(&ls[0])), shell(to_pis(&ls[1]))];
        let got = verif_ensure_leaf_batch_compatible(&proofs).is_ok();
        let any_real = real(&ls[0]) || real(&ls[1]);
        let expect = a_priv(&ls) && any_real;
        assert!(got == expect);
        kani::cover!(got);
        kani::cover!(!got && any_real);
        core::mem::forget(proofs);
    }

    // private-batch public-input layout: [2N, asset, fee, block hash(4), number, ...]
    fn a_pub(h: &[[u64; 8]]) -> bool {
        let mut first: Option<usize> = None;
        let mut i = 0;
        while i < h.len() {
            let r = !(h[i][3] == 0 && h[i][4] == 0 && h[i][5] == 0 && h[i][6] == 0);
            if r {
                match first {
                    None => first = Some(i),
                    Some(f) => {
                        if !eq4(&h[i][3..7], &h[f][3..7]) || h[i][1] != h[f][1] || h[i][2] != h[f][2] {
                            return false;
                        }
                    }
                }
            }
            i += 1;
        }
        true
    }

    #[kani::proof]
    #[kani::unwind(36)]
    #[kani::stub(alloc::fmt::format, fmt_stub)]
    fn public_preflight_accepts_exactly_provable_batches_m2() {
        let mut hs = [[0u64; 8]; 2];
        let mut proofs: Vec<ProofWithPublicInputs<F, C, D>> = Vec::with_capacity(2);
        let mut any_real = false;
        let mut i = 0;
        while i < 2 {
            let h: [u64; 8] = kani::any();
            let mut pis = Vec::with_capacity(29);
            let mut j = 0;
            while j < 29 {
                let v = if j < 8 { h[j] } else { 0 };
                kani::assume(v < P);
                pis.push(F::from_canonical_u64(v));
                j += 1;
            }
            hs[i] = h;
            any_real = any_real || !(h[3] == 0 && h[4] == 0 && h[5] == 0 && h[6] == 0);
            proofs.push(shell(pis));
            i += 1;
        }
        let got = verif_ensure_private_batch_compatible(&proofs).is_ok();
        assert!(got == (a_pub(&hs) && any_real));
        kani::cover!(got);
        kani::cover!(!got && any_real);
        core::mem::forget(proofs);
    }
}
