"""MIR -> SMT: a small symbolic executor for LOOP-FREE integer functions of the repository, working on
the MIR that the nightly compiler dumps for /repo's current source (`-Zunpretty=mir`).

Integers are mathematical z3 Ints constrained to their machine range; arithmetic follows the MIR
(`overflow-checks=on`: `AddWithOverflow`/`assert` pairs are explicit; `checked_*` library calls are
modelled; wrapping never happens silently because an overflowing plain `Add/Mul` is reported as an
'overflow' outcome). Every path through the CFG is enumerated with its path condition; a function
summary is the list of (path condition, outcome, return value).

Supported: scalar ints/bools, `Option`/`Result` of scalars (discriminant + payload), tuples produced
by *WithOverflow, named constants (resolved from the dump or from a table read out of pinned
dependency source), calls to `checked_mul/checked_add/checked_sub/leading_zeros/div_ceil/is_multiple_of`;
any other call returns an unconstrained value of its type ("havoc", recorded so a claim can
require that no havoc value reaches a branch)."""
import os
import re
import subprocess
import time

import z3

BITS = {"u8": 8, "u16": 16, "u32": 32, "u64": 64, "u128": 128, "usize": 64, "i32": 32, "i64": 64, "isize": 64, "bool": 1}


def dump_mir(crate_dir, target_dir, features=()):
    """MIR text of the library crate at crate_dir, from /repo's current source."""
    lib = os.path.join(crate_dir, "src", "lib.rs")
    os.utime(lib, None)
    cmd = ["cargo", "+nightly", "rustc", "--offline", "--lib"] + list(features) + ["--", "-Zunpretty=mir", "-C", "debug-assertions=off", "-C", "overflow-checks=on"]
    env = dict(os.environ)
    env["CARGO_TARGET_DIR"] = target_dir
    env["CARGO_NET_OFFLINE"] = "true"
    env.pop("RUSTFLAGS", None)
    p = subprocess.run(cmd, cwd=crate_dir, env=env, stdout=subprocess.PIPE, stderr=subprocess.PIPE, text=True)
    if p.returncode != 0 or "fn " not in p.stdout:
        raise RuntimeError("MIR dump failed:\n" + p.stderr[-2000:])
    return p.stdout


class Fn:
    def __init__(self, name, params, ret, locals_, blocks):
        self.name, self.params, self.ret, self.locals, self.blocks = name, params, ret, locals_, blocks


def parse(mir):
    """-> (functions: name -> [Fn] (a name can occur twice: runtime + CTFE copy), consts: name -> int)"""
    fns, consts = {}, {}
    for m in re.finditer(r"^const ([\w:<>\[\] ]+): (\w+) = const (-?\d+)_\w+;", mir, re.M):
        consts[m.group(1).strip()] = int(m.group(3))
    for m in re.finditer(r"^(?:const )?fn ([^\n(]+)\(([^\n]*)\) -> ([^\n{]+) \{\n(.*?)^\}", mir, re.M | re.S):
        name, params, ret, body = m.group(1).strip(), m.group(2), m.group(3).strip(), m.group(4)
        plist = [(int(a), t.strip()) for a, t in re.findall(r"_(\d+): ([^,]+(?:<[^>]*>)?[^,]*)", params)]
        locals_ = {0: ret}
        for a, t in plist:
            locals_[a] = t
        for lm in re.finditer(r"let (?:mut )?_(\d+): ([^;]+);", body):
            locals_[int(lm.group(1))] = lm.group(2).strip()
        blocks = {}
        for bm in re.finditer(r"bb(\d+)(?: \(cleanup\))?: \{\n(.*?)\n    \}", body, re.S):
            lines = [l.strip() for l in bm.group(2).split("\n") if l.strip() and not l.strip().startswith("//")]
            blocks[int(bm.group(1))] = lines
        fns.setdefault(name, []).append(Fn(name, plist, ret, locals_, blocks))
    # block-valued consts: evaluate later on demand (simple ones only)
    for m in re.finditer(r"^const ([\w:]+): (\w+) = \{\n(.*?)^\}", mir, re.M | re.S):
        body = m.group(3)
        mm = re.findall(r"_0 = const (-?\d+)_\w+;", body)
        if mm and body.count("bb") == 1:
            consts[m.group(1)] = int(mm[-1])
    return fns, consts


class Val:
    def __init__(self, kind, **kw):
        self.kind = kind
        self.__dict__.update(kw)


def ty_bits(t):
    t = t.strip()
    return BITS.get(t)


class Exec:
    def __init__(self, fn, consts, extra_consts=None):
        self.fn, self.consts = fn, dict(consts)
        if extra_consts:
            self.consts.update(extra_consts)
        self.paths = []
        self.nfresh = 0
        self.havocs = []
        self.args = {}

    def fresh(self, ty, why):
        self.nfresh += 1
        b = ty_bits(ty) or 64
        if ty.strip() == "bool":
            v = z3.Bool(f"hv{self.nfresh}")
            self.havocs.append((str(v), why))
            return Val("bool", v=v)
        v = z3.Int(f"hv{self.nfresh}")
        self.havocs.append((str(v), why))
        return Val("int", v=v, bits=b, dom=z3.And(v >= 0, v < 2 ** b))

    def const_of(self, text):
        text = text.strip()
        m = re.match(r"const (-?\d+)_(\w+)$", text)
        if m:
            return Val("int", v=z3.IntVal(int(m.group(1))), bits=BITS.get(m.group(2), 64))
        if text in ("const true", "const false"):
            return Val("bool", v=z3.BoolVal(text.endswith("true")))
        m = re.match(r"const ([\w:<> ]+)$", text)
        if m:
            name = m.group(1).strip()
            for k in (name, name.split("::")[-1]):
                if k in self.consts:
                    return Val("int", v=z3.IntVal(self.consts[k]), bits=64)
            cands = [k for k in self.consts if k.endswith("::" + name.split("::")[-1])]
            if len(cands) == 1:
                return Val("int", v=z3.IntVal(self.consts[cands[0]]), bits=64)
        raise NotImplementedError("constant " + text)

    def operand(self, env, text):
        text = text.strip()
        if text.startswith("const "):
            return self.const_of(text)
        m = re.match(r"(?:copy |move )?\(\(_(\d+) as (\w+)\)\.(\d+): [^)]+\)$", text)
        if m:
            e = env[int(m.group(1))]
            return e.payload[m.group(2)][int(m.group(3))]
        m = re.match(r"(?:copy |move )?\(_(\d+)\.(\d+): [^)]+\)$", text)
        if m:
            return env[int(m.group(1))].items[int(m.group(2))]
        m = re.match(r"(?:copy |move )?_(\d+)$", text)
        if m:
            return env[int(m.group(1))]
        raise NotImplementedError("operand " + text)

    def rvalue(self, env, dst_ty, text):
        text = text.strip()
        m = re.match(r"(\w+)\((.*), (.*)\)$", text)
        if m and m.group(1) in ("Add", "Sub", "Mul", "Div", "Rem", "Eq", "Ne", "Lt", "Le", "Gt", "Ge", "BitAnd", "BitOr", "Shl", "Shr",
                                "AddWithOverflow", "SubWithOverflow", "MulWithOverflow", "AddUnchecked", "SubUnchecked", "MulUnchecked"):
            op = m.group(1)
            a, b = self.operand(env, m.group(2)), self.operand(env, m.group(3))
            if op in ("Eq", "Ne", "Lt", "Le", "Gt", "Ge"):
                if a.kind == "bool":
                    return Val("bool", v=(a.v == b.v) if op == "Eq" else (a.v != b.v))
                f = {"Eq": lambda x, y: x == y, "Ne": lambda x, y: x != y, "Lt": lambda x, y: x < y, "Le": lambda x, y: x <= y,
                     "Gt": lambda x, y: x > y, "Ge": lambda x, y: x >= y}[op]
                return Val("bool", v=f(a.v, b.v))
            bits = a.bits
            lim = 2 ** bits
            if op.endswith("WithOverflow"):
                raw = {"Add": a.v + b.v, "Sub": a.v - b.v, "Mul": a.v * b.v}[op[:3]]
                ov = z3.Or(raw >= lim, raw < 0)
                wrapped = z3.If(raw >= lim, raw - lim * (raw / lim), z3.If(raw < 0, raw + lim, raw))
                return Val("tuple", items=[Val("int", v=wrapped, bits=bits), Val("bool", v=ov)])
            if op in ("Add", "Sub", "Mul", "AddUnchecked", "SubUnchecked", "MulUnchecked"):
                raw = {"Add": a.v + b.v, "Sub": a.v - b.v, "Mul": a.v * b.v}[op[:3]]
                # plain arithmetic in MIR with overflow-checks=on only occurs where rustc proved / asserted no overflow
                return Val("int", v=raw, bits=bits, must=z3.And(raw >= 0, raw < lim))
            if op == "Div":
                return Val("int", v=a.v / b.v, bits=bits)
            if op == "Rem":
                return Val("int", v=a.v % b.v, bits=bits)
            if op == "Shl" and z3.is_int_value(b.v):
                raw = a.v * (2 ** b.v.as_long())
                return Val("int", v=raw - lim * (raw / lim), bits=bits)
            if op == "Shr" and z3.is_int_value(b.v):
                return Val("int", v=a.v / (2 ** b.v.as_long()), bits=bits)
            if op == "BitAnd" and z3.is_int_value(b.v) and (b.v.as_long() + 1) & b.v.as_long() == 0:
                return Val("int", v=a.v % (b.v.as_long() + 1), bits=bits)
            raise NotImplementedError("binop " + text)
        m = re.match(r"Not\((.*)\)$", text)
        if m:
            a = self.operand(env, m.group(1))
            return Val("bool", v=z3.Not(a.v))
        m = re.match(r"discriminant\(_(\d+)\)$", text)
        if m:
            return Val("int", v=env[int(m.group(1))].disc, bits=64)
        m = re.match(r"(.*) as (\w+) \(IntToInt\)$", text)
        if m:
            a = self.operand(env, m.group(1))
            nb = BITS[m.group(2)]
            if a.kind == "bool":
                return Val("int", v=z3.If(a.v, 1, 0), bits=nb)
            return Val("int", v=a.v if nb >= a.bits else a.v % (2 ** nb), bits=nb)
        m = re.match(r"(Option|Result|core::option::Option|core::result::Result)::<.*>::(None|Some|Ok|Err)(?:\((.*)\))?$", text)
        if m:
            var = m.group(2)
            disc = {"None": 0, "Some": 1, "Ok": 0, "Err": 1}[var]
            payload = {}
            if m.group(3) is not None and m.group(3).strip():
                try:
                    payload[var] = [self.operand(env, m.group(3))]
                except (NotImplementedError, KeyError):
                    payload[var] = [Val("opaque")]
            return Val("enum", disc=z3.IntVal(disc), payload=payload, variant=var)
        if text == "()" or text.startswith("const ()"):
            return Val("unit")
        if text.startswith("const "):
            try:
                return self.const_of(text)
            except NotImplementedError:
                return Val("opaque")
        if text.startswith("&") or text.startswith("[") or text.startswith("(move") or text.startswith("(copy") or text.startswith("no_retag"):
            return Val("opaque")
        return self.operand(env, text)

    def call(self, env, callee, args, dst_ty):
        a = []
        for x in split_args(args):
            try:
                a.append(self.operand(env, x))
            except (NotImplementedError, KeyError):
                a.append(Val("opaque"))
        m = re.search(r"::(checked_mul|checked_add|checked_sub)$", callee)
        if m:
            bits = a[0].bits
            raw = {"checked_mul": a[0].v * a[1].v, "checked_add": a[0].v + a[1].v, "checked_sub": a[0].v - a[1].v}[m.group(1)]
            ok = z3.And(raw >= 0, raw < 2 ** bits)
            return Val("enum", disc=z3.If(ok, 1, 0), payload={"Some": [Val("int", v=raw, bits=bits)]}, variant=None)
        m = re.search(r"::(wrapping_mul|wrapping_add|wrapping_sub|saturating_add|saturating_mul|saturating_sub)$", callee)
        if m:
            bits = a[0].bits
            lim = 2 ** bits
            op = m.group(1)
            raw = {"mul": a[0].v * a[1].v, "add": a[0].v + a[1].v, "sub": a[0].v - a[1].v}[op.split("_")[1]]
            if op.startswith("wrapping"):
                return Val("int", v=raw % lim, bits=bits)
            return Val("int", v=z3.If(raw >= lim, lim - 1, z3.If(raw < 0, 0, raw)), bits=bits)
        if callee.endswith("::leading_zeros"):
            x, bits = a[0].v, a[0].bits
            e = z3.IntVal(bits)
            for k in range(bits):          # lz = bits-1-k  iff  2^k <= x < 2^(k+1)
                e = z3.If(z3.And(x >= 2 ** k, x < 2 ** (k + 1)), z3.IntVal(bits - 1 - k), e)
            return Val("int", v=e, bits=32)
        if callee.endswith("::div_ceil"):
            return Val("int", v=(a[0].v + a[1].v - 1) / a[1].v, bits=a[0].bits)
        if callee.endswith("::is_multiple_of"):
            return Val("bool", v=z3.If(a[1].v == 0, a[0].v == 0, a[0].v % a[1].v == 0))
        return self.fresh(dst_ty if ty_bits(dst_ty) else "opaque", "call " + callee) if ty_bits(dst_ty) else Val("opaque", why=callee)

    def run(self):
        env = {}
        dom = []
        for idx, ty in self.fn.params:
            b = ty_bits(ty)
            if ty.strip() == "bool":
                v = z3.Bool(f"arg{idx}")
                env[idx] = Val("bool", v=v)
            elif b:
                v = z3.Int(f"arg{idx}")
                env[idx] = Val("int", v=v, bits=b)
                dom.append(z3.And(v >= 0, v < 2 ** b))
            else:
                env[idx] = Val("opaque")
            self.args[idx] = env[idx]
        self.dom = dom
        self._walk(0, env, [], 0)
        return self.paths

    def _walk(self, bb, env, pc, depth):
        if depth > 400:
            raise RuntimeError("CFG too deep (loop?)")
        env = dict(env)
        pc = list(pc)
        for line in self.fn.blocks[bb]:
            line = line.rstrip(";")
            if line.startswith(("StorageLive", "StorageDead", "nop", "PlaceMention", "FakeRead", "Retag", "AscribeUserType", "Coverage", "debug ")):
                continue
            if line == "return":
                self.paths.append((pc, "return", env.get(0)))
                return
            if line == "unreachable":
                self.paths.append((pc, "unreachable", None))
                return
            if line.startswith("resume") or line.startswith("abort"):
                return
            m = re.match(r"goto -> bb(\d+)$", line)
            if m:
                return self._walk(int(m.group(1)), env, pc, depth + 1)
            m = re.match(r"switchInt\((.*)\) -> \[(.*)\]$", line)
            if m:
                v = self.operand(env, m.group(1))
                scrut = v.v
                taken = []
                for case in m.group(2).split(","):
                    k, tgt = case.strip().split(": ")
                    tgt = int(tgt[2:])
                    if k == "otherwise":
                        cond = z3.And([z3.Not(c) for c in taken]) if taken else z3.BoolVal(True)
                    else:
                        kv = int(k)
                        cond = (scrut if kv == 1 else z3.Not(scrut)) if v.kind == "bool" else (scrut == kv)
                        taken.append(cond)
                    if feasible(self.dom + pc + [cond]):
                        self._walk(tgt, env, pc + [cond], depth + 1)
                return
            m = re.match(r"assert\((!?)(.*?), \"(.*?)\".*\) -> \[success: bb(\d+), unwind.*\]$", line)
            if m:
                c = self.operand(env, m.group(2)).v
                good = z3.Not(c) if m.group(1) else c
                if feasible(self.dom + pc + [z3.Not(good)]):
                    self.paths.append((pc + [z3.Not(good)], "panic: " + m.group(3), None))
                pc = pc + [good]
                return self._walk(int(m.group(4)), env, pc, depth + 1)
            m = re.match(r"drop\(.*\) -> \[return: bb(\d+).*\]$", line)
            if m:
                return self._walk(int(m.group(1)), env, pc, depth + 1)
            m = re.match(r"_(\d+) = (.+?)\((.*)\) -> \[return: bb(\d+), unwind.*\]$", line)
            if m:
                dst = int(m.group(1))
                env[dst] = self.call(env, m.group(2).strip(), m.group(3), self.fn.locals.get(dst, ""))
                return self._walk(int(m.group(4)), env, pc, depth + 1)
            m = re.match(r"_(\d+) = (.+?)\((.*)\) -> unwind.*$", line)
            if m:       # diverging call (panic)
                self.paths.append((pc, "panic: call " + m.group(2), None))
                return
            m = re.match(r"_(\d+) = (.*)$", line)
            if m:
                dst = int(m.group(1))
                try:
                    val = self.rvalue(env, self.fn.locals.get(dst, ""), m.group(2))
                except (NotImplementedError, KeyError) as e:
                    val = Val("opaque", why=str(e))
                if getattr(val, "must", None) is not None:
                    if feasible(self.dom + pc + [z3.Not(val.must)]):
                        self.paths.append((pc + [z3.Not(val.must)], "overflow in plain arithmetic: " + m.group(2), None))
                    pc = pc + [val.must]
                env[dst] = val
                continue
            m = re.match(r"\(\(_(\d+) as (\w+)\)\.(\d+): [^)]+\) = (.*)$", line)
            if m:
                continue
            raise NotImplementedError("MIR statement: " + line)
        raise RuntimeError("block without terminator")


def split_args(s):
    out, depth, cur = [], 0, ""
    for ch in s:
        if ch in "([<":
            depth += 1
        elif ch in ")]>":
            depth -= 1
        if ch == "," and depth == 0:
            out.append(cur)
            cur = ""
        else:
            cur += ch
    if cur.strip():
        out.append(cur)
    return out


def feasible(conds):
    s = z3.Solver()
    s.set("timeout", 20000)
    s.add(conds)
    return s.check() != z3.unsat


def summarize(mir_text, fn_name, extra_consts=None, pick=0):
    fns, consts = parse(mir_text)
    cands = [k for k in fns if k == fn_name or k.endswith("::" + fn_name)]
    if not cands:
        raise KeyError(fn_name)
    fn = fns[cands[0]][pick]
    ex = Exec(fn, consts, extra_consts)
    ex.run()
    return ex


def prove(ex, name, goal_of_path, timeout_s=120):
    """goal_of_path(path_condition_conj, outcome, retval) -> z3 Bool that must hold on that path.
    Returns list of (path description, verdict, seconds, model)."""
    out = []
    for pc, outcome, ret in ex.paths:
        g = goal_of_path(pc, outcome, ret)
        if g is None:
            continue
        s = z3.Solver()
        s.set("timeout", int(timeout_s * 1000))
        s.add(ex.dom)
        s.add(pc)
        s.add(z3.Not(g))
        t0 = time.time()
        r = s.check()
        out.append((f"{name} [{outcome}]", "HOLDS" if r == z3.unsat else ("CEX" if r == z3.sat else "UNKNOWN"), time.time() - t0,
                    s.model() if r == z3.sat else None))
    return out
