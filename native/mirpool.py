"""MIR -> SMT for ONE STEP of `ProofPool::push` (wormhole/aggregator/src/pool.rs), from the MIR that the
nightly compiler dumps for /repo's current source.

What is executed symbolically is the real control flow and data flow of `push` as compiled: every basic
block, every branch, every field read/write of `self`, the order of calls.  What is modelled (stubs,
each part of the claim) is the environment `push` calls into:

  ProofPool::len                  -> ghost Int `total` (number of pooled proofs)
  ProofPool::parse_metadata       -> arbitrary Result: Ok((key, nullifiers, volume)) | Err   (symbolic)
  BatchKey::is_dummy              -> uninterpreted predicate dummy(key)
  Instant::now                    -> fresh instant, not earlier than any instant seen before (monotonic clock)
  Instant::duration_since         -> saturating difference;  Duration comparisons -> integer comparisons
  VerifierCircuitData::verify     -> arbitrary Result (symbolic), recorded as a `verify` event
  BTreeMap<BatchKey,Bucket>       -> has: Key->Bool, cnt: Key->Int, nb: Int   (contains_key, len, entry().or_default(), Vec::push)
  HashMap<BytesDigest,BatchKey>   -> ni: Null->Bool, nik: Null->Key           (contains_key, insert, entry/VacantEntry::insert/or_insert)
  Vec<BytesDigest> (nullifiers)   -> a list of at most K symbolic digests with symbolic length (K stated by the caller)
  iter()/into_iter()/next()/any() -> list iteration; the closure given to any() is executed from ITS OWN MIR
  format!/anyhow!/Clone/Deref/drop-> no effect on pool state

A call to a function of the analysed crate that is not in this table is executed from ITS OWN MIR (inlined), so moving
logic into a helper keeps the check meaningful. Any other call that is not in this table returns an opaque value; if such a call receives a mutable reference
into the pool, or a branch depends on an opaque value, the executor raises Unsupported and the check is
inconclusive (never a violation)."""
import re

import z3

import mirsmt

Key = z3.DeclareSort("Key")
Null = z3.DeclareSort("Null")
USIZE = 2 ** 64


class Unsupported(Exception):
    pass


class V:
    def __init__(self, kind, **kw):
        self.kind = kind
        self.__dict__.update(kw)

    def __repr__(self):
        return f"V({self.kind}, {', '.join(k + '=' + str(v)[:40] for k, v in self.__dict__.items() if k != 'kind')})"


def OPQ(why=""):
    return V("opaque", why=why)


# ----------------------------------------------------------------------------- places
class Place:
    def __init__(self, local, proj):
        self.local, self.proj = local, proj       # proj: list of ('*',) | ('f', idx) | ('v', variant)


def parse_place(s):
    s = s.strip()
    p, i = _pp(s, 0)
    if i != len(s):
        raise Unsupported("place: " + s)
    return p


def _pp(s, i):
    if s[i] == "_":
        j = i + 1
        while j < len(s) and s[j].isdigit():
            j += 1
        return Place(int(s[i + 1:j]), []), j
    if s[i] != "(":
        raise Unsupported("place: " + s)
    if s[i + 1] == "*":
        inner, j = _pp(s, i + 2)
        if s[j] != ")":
            raise Unsupported("place: " + s)
        return Place(inner.local, inner.proj + [("*",)]), j + 1
    inner, j = _pp(s, i + 1)
    if s[j] == ".":
        k = j + 1
        while s[k].isdigit():
            k += 1
        idx = int(s[j + 1:k])
        if s[k:k + 2] != ": ":
            raise Unsupported("place: " + s)
        depth, m = 0, k + 2
        while True:
            ch = s[m]
            if ch in "([<{":
                depth += 1
            elif ch in ")]>}":
                if depth == 0 and ch == ")":
                    break
                depth -= 1
            m += 1
        return Place(inner.local, inner.proj + [("f", idx)]), m + 1
    if s[j:j + 4] == " as ":
        m = s.index(")", j)
        return Place(inner.local, inner.proj + [("v", s[j + 4:m])]), m + 1
    raise Unsupported("place: " + s)


# ----------------------------------------------------------------------------- executor
class State:
    def __init__(self, env, heap, st, pc, events, t_seen):
        self.env, self.heap, self.st, self.pc, self.events, self.t_seen = env, heap, st, pc, events, t_seen

    def fork(self):
        return State(dict(self.env), self.heap, dict(self.st), list(self.pc), list(self.events), list(self.t_seen))


class PoolExec:
    """symbolic execution of push (and closures it calls) over the abstract pool state"""

    def __init__(self, mir_text, src_text, K=2):
        self.fns, self.consts = mirsmt.parse(mir_text)
        self.K = K
        self.pool_fields = struct_fields(src_text, "ProofPool")
        self.limit_fields = struct_fields(src_text, "PoolLimits")
        self.nfresh = 0
        self.paths = []
        self.unknown_calls = set()
        self.inputs = {}

    def fresh(self, name, sort="int"):
        self.nfresh += 1
        nm = f"{name}_{self.nfresh}"
        if sort == "bool":
            return z3.Bool(nm)
        if sort == "key":
            return z3.Const(nm, Key)
        if sort == "null":
            return z3.Const(nm, Null)
        return z3.Int(nm)

    # ---- initial symbolic pool
    def initial(self):
        lim = {}
        dom = []
        for i, (fname, fty) in enumerate(self.limit_fields):
            v = z3.Int("lim_" + fname)
            dom.append(v >= 0)
            if "Duration" in fty:
                lim[i] = V("dur", v=v)
            else:
                lim[i] = V("int", v=v)
                dom.append(v < USIZE)
            self.inputs["lim_" + fname] = v
        pool = {}
        for i, (fname, fty) in enumerate(self.pool_fields):
            if fname == "limits":
                pool[i] = V("struct", fields=lim)
            elif fname == "buckets":
                pool[i] = V("bmap")
            elif fname == "nullifier_index":
                pool[i] = V("hmap")
            elif "Instant" in fty:
                v = z3.Int("pre_" + fname)
                dom.append(v >= 0)
                pool[i] = V("instant", v=v)
                self.inputs["pre_" + fname] = v
            elif fty.strip() == "usize":
                v = z3.Int("pre_" + fname)
                dom += [v >= 0, v < USIZE]
                pool[i] = V("int", v=v)
                self.inputs["pre_" + fname] = v
            else:
                pool[i] = OPQ(fname)
        st = {"has": z3.Array("pre_has", Key, z3.BoolSort()), "cnt": z3.Array("pre_cnt", Key, z3.IntSort()), "nb": z3.Int("pre_nb"),
              "total": z3.Int("pre_total"), "ni": z3.Array("pre_ni", Null, z3.BoolSort()), "nik": z3.Array("pre_nik", Null, Key)}
        dom += [st["nb"] >= 0, st["total"] >= 0, st["nb"] < USIZE, st["total"] < USIZE]
        self.pre = dict(st)
        self.pre_pool = pool
        self.dom = dom
        return V("struct", fields=pool), st

    def field_index(self, name):
        return [i for i, (n, _) in enumerate(self.pool_fields) if n == name][0]

    # ---- value access
    def read(self, S, place):
        cur = S.env.get(place.local)
        if cur is None:
            raise Unsupported(f"read of unset local _{place.local}")
        return self.walk(S, cur, place.proj)

    def walk(self, S, cur, proj):
        for p in proj:
            if p[0] == "*":
                if cur.kind == "ref":
                    cur = self.deref(S, cur)
                elif cur.kind == "opaque":
                    return OPQ("deref opaque")
                else:
                    raise Unsupported("deref of " + cur.kind)
            elif p[0] == "f":
                if cur.kind in ("struct", "tuple"):
                    cur = cur.fields.get(p[1], OPQ("field")) if cur.kind == "struct" else (cur.items[p[1]] if p[1] < len(cur.items) else OPQ())
                elif cur.kind == "payload":
                    cur = cur.items[p[1]] if p[1] < len(cur.items) else OPQ()
                elif cur.kind == "bucket":
                    cur = V("bvec", key=cur.key) if p[1] == 0 else OPQ("bucket field")
                elif cur.kind == "closure":
                    cur = cur.caps[p[1]] if p[1] < len(cur.caps) else OPQ()
                else:
                    cur = OPQ("field of " + cur.kind)
            elif p[0] == "v":
                if cur.kind == "enum":
                    cur = V("payload", items=cur.payload.get(p[1], []))
                else:
                    cur = OPQ("downcast of " + cur.kind)
        return cur

    def deref(self, S, ref):
        if ref.target[0] == "heap":
            return self.walk(S, S.heap, ref.target[1])
        if ref.target[0] == "local":
            return self.walk(S, S.env[ref.target[1]], ref.target[2])
        if ref.target[0] == "val":
            return ref.target[1]
        raise Unsupported("ref target")

    def loc_of(self, S, place):
        """resolve a place to ('heap', path) | ('local', n, path) | ('val', V)"""
        base = ("local", place.local, [])
        for k, p in enumerate(place.proj):
            if p[0] == "*":
                cur = self.walk(S, S.env[base[1]], base[2]) if base[0] == "local" else (self.walk(S, S.heap, base[1]) if base[0] == "heap" else base[1])
                if cur.kind != "ref":
                    return ("val", OPQ("deref non-ref"))
                t = cur.target
                base = ("heap", list(t[1])) if t[0] == "heap" else (("local", t[1], list(t[2])) if t[0] == "local" else ("val", t[1]))
            else:
                if base[0] == "heap":
                    base = ("heap", base[1] + [p])
                elif base[0] == "local":
                    base = ("local", base[1], base[2] + [p])
                else:
                    base = ("val", self.walk(S, base[1], [p]))
        return base

    def write(self, S, place, val):
        loc = self.loc_of(S, place)
        if loc[0] == "local":
            if not loc[2]:
                S.env[loc[1]] = val
            else:
                S.env[loc[1]] = self.updated(S.env.get(loc[1], OPQ()), loc[2], val)
        elif loc[0] == "heap":
            S.heap = self.updated(S.heap, loc[1], val)
            S.events.append(("write", tuple(loc[1])))
        else:
            raise Unsupported("write through a modelled reference")

    def updated(self, cur, path, val):
        if not path:
            return val
        p = path[0]
        if p[0] == "f" and cur.kind == "struct":
            f = dict(cur.fields)
            f[p[1]] = self.updated(f.get(p[1], OPQ()), path[1:], val)
            return V("struct", fields=f)
        if p[0] == "f" and cur.kind == "tuple":
            it = list(cur.items)
            it[p[1]] = self.updated(it[p[1]], path[1:], val)
            return V("tuple", items=it)
        if cur.kind == "opaque":
            return cur
        raise Unsupported("field write into " + cur.kind)

    # ---- operands / rvalues
    def operand(self, S, text):
        text = text.strip()
        for pre in ("no_retag copy ", "deref_copy ", "copy ", "move ", "no_retag "):
            if text.startswith(pre):
                return self.read(S, parse_place(text[len(pre):]))
        if text.startswith("const "):
            m = re.match(r"const (-?\d+)_(\w+)$", text)
            if m:
                return V("int", v=z3.IntVal(int(m.group(1))))
            if text in ("const true", "const false"):
                return V("bool", v=z3.BoolVal(text.endswith("true")))
            m = re.match(r"const ZeroSized: (\{closure@.*\})$", text)
            if m:
                return V("closure", name=m.group(1), caps=[])
            return OPQ(text[:40])
        if text.startswith("_") or text.startswith("("):
            return self.read(S, parse_place(text))
        raise Unsupported("operand: " + text)

    def rvalue(self, S, text):
        text = text.strip()
        m = re.match(r"&(?:raw (?:const|mut) )?(mut )?(.*)$", text)
        if m and not text.startswith("&&"):
            loc = self.loc_of(S, parse_place(m.group(2)))
            return V("ref", target=loc, mut=bool(m.group(1)))
        m = re.match(r"(Add|Sub|Mul|Eq|Ne|Lt|Le|Gt|Ge|AddWithOverflow|SubWithOverflow|MulWithOverflow|BitAnd|BitOr)\((.*)\)$", text)
        if m:
            a, b = [self.operand(S, x) for x in mirsmt.split_args(m.group(2))]
            op = m.group(1)
            if a.kind == "opaque" or b.kind == "opaque":
                return OPQ("binop on opaque")
            if op in ("Eq", "Ne", "Lt", "Le", "Gt", "Ge"):
                f = {"Eq": lambda x, y: x == y, "Ne": lambda x, y: x != y, "Lt": lambda x, y: x < y, "Le": lambda x, y: x <= y,
                     "Gt": lambda x, y: x > y, "Ge": lambda x, y: x >= y}[op]
                return V("bool", v=f(a.v, b.v))
            if op in ("BitAnd", "BitOr") and a.kind == "bool":
                return V("bool", v=z3.And(a.v, b.v) if op == "BitAnd" else z3.Or(a.v, b.v))
            raw = {"Add": a.v + b.v, "Sub": a.v - b.v, "Mul": a.v * b.v}[op[:3]]
            if op.endswith("WithOverflow"):
                ov = z3.Or(raw >= USIZE, raw < 0)
                wrapped = z3.If(raw >= USIZE, raw - USIZE, z3.If(raw < 0, raw + USIZE, raw))
                return V("tuple", items=[V("int", v=wrapped), V("bool", v=ov)])
            return V("int", v=raw, must=z3.And(raw >= 0, raw < USIZE))
        m = re.match(r"Not\((.*)\)$", text)
        if m:
            a = self.operand(S, m.group(1))
            return V("bool", v=z3.Not(a.v)) if a.kind == "bool" else OPQ()
        m = re.match(r"discriminant\((.*)\)$", text)
        if m:
            e = self.read(S, parse_place(m.group(1)))
            if e.kind != "enum":
                if getattr(self, "havoc", False):
                    return V("int", v=self.fresh("havoc_disc"))
                return OPQ("discriminant of " + e.kind)
            return V("int", v=e.disc)
        m = re.match(r"(?:std::|core::)?(?:result::|option::)?(Option|Result)::<.*?>::(None|Some|Ok|Err)(?:\((.*)\))?$", text)
        if m:
            var = m.group(2)
            disc = {"None": 0, "Some": 1, "Ok": 0, "Err": 1}[var]
            items = [self.operand(S, x) for x in mirsmt.split_args(m.group(3))] if m.group(3) else []
            return V("enum", ty=m.group(1), disc=z3.IntVal(disc), payload={var: items})
        m = re.match(r"(\{closure@[^}]*\}) \{(.*)\}$", text)
        if m:
            caps = [self.operand(S, x.split(": ", 1)[1]) for x in mirsmt.split_args(m.group(2))]
            return V("closure", name=m.group(1), caps=caps)
        m = re.match(r"([A-Za-z_][\w:]*(?:::<.*?>)?) \{(.*)\}$", text)
        if m:
            fields = {}
            for k, x in enumerate(mirsmt.split_args(m.group(2))):
                fields[k] = self.operand(S, x.split(": ", 1)[1])
            return V("struct", fields=fields, name=m.group(1))
        if text.startswith("(") and not text.startswith("((") and not text.startswith("(*") and not re.match(r"\(_\d+[.) ]", text):
            inner = text[1:-1].rstrip(",")
            return V("tuple", items=[self.operand(S, x) for x in mirsmt.split_args(inner)] if inner.strip() else [])
        if text.startswith("["):
            return OPQ("array")
        m = re.match(r"(.*) as \w+ \(\w+.*\)$", text)
        if m:
            return self.operand(S, m.group(1))
        return self.operand(S, text)

    # ---- calls
    def call(self, S, callee, argtext):
        args = []
        for x in mirsmt.split_args(argtext):
            try:
                args.append(self.operand(S, x))
            except Unsupported:
                args.append(OPQ("arg"))
        c = re.sub(r"\s+", " ", callee)

        def dv(a):      # value behind a reference argument
            return self.deref(S, a) if a.kind == "ref" else a

        m = re.search(r"::(saturating_sub|saturating_add|wrapping_add|wrapping_sub|checked_add|checked_sub|min|max)$", c)
        if m and len(args) == 2 and all(dv(a).kind == "int" for a in args):
            a, b = dv(args[0]).v, dv(args[1]).v
            op = m.group(1)
            if op == "saturating_sub":
                return [(S, V("int", v=z3.If(a >= b, a - b, 0)))]
            if op == "saturating_add":
                return [(S, V("int", v=z3.If(a + b >= USIZE, USIZE - 1, a + b)))]
            if op == "wrapping_add":
                return [(S, V("int", v=z3.If(a + b >= USIZE, a + b - USIZE, a + b)))]
            if op == "wrapping_sub":
                return [(S, V("int", v=z3.If(a >= b, a - b, a - b + USIZE)))]
            if op in ("checked_add", "checked_sub"):
                raw = a + b if op == "checked_add" else a - b
                okc = z3.And(raw >= 0, raw < USIZE)
                return [(S, V("enum", ty="Option", disc=z3.If(okc, 1, 0), payload={"Some": [V("int", v=raw)]}))]
            return [(S, V("int", v=z3.If(a <= b, a, b) if op == "min" else z3.If(a >= b, a, b)))]
        if re.search(r"ProofPool::len$", c):
            S.events.append(("read", "total"))
            return [(S, V("int", v=S.st["total"]))]
        if re.search(r"ProofPool::parse_metadata$", c):
            ok = z3.Bool("meta_ok")
            key = z3.Const("key", Key)
            L = z3.Int("nulls_len")
            elems = [z3.Const(f"null_{i}", Null) for i in range(self.K)]
            vol = z3.Int("volume")
            self.inputs.update(meta_ok=ok, key=key, nulls_len=L, volume=vol, **{f"null_{i}": e for i, e in enumerate(elems)})
            self.dom += [L >= 0, L <= self.K, vol >= 0, vol < USIZE]
            S.events.append(("call", "parse_metadata"))
            tup = V("tuple", items=[V("key", v=key), V("nulls", elems=elems, len=L), V("int", v=vol)])
            return [(S, V("enum", ty="Result", disc=z3.If(ok, 0, 1), payload={"Ok": [tup], "Err": [OPQ("error")]}))]
        if re.search(r"BatchKey::is_dummy$", c):
            k = dv(args[0])
            if k.kind != "key":
                raise Unsupported("is_dummy on " + k.kind)
            d = z3.Function("dummy", Key, z3.BoolSort())
            S.events.append(("call", "is_dummy"))
            return [(S, V("bool", v=d(k.v)))]
        if re.search(r"Instant::now$", c):
            t = self.fresh("now")
            self.dom.append(t >= 0)
            S.pc.append(z3.And([t >= u for u in S.t_seen] + [t >= self.inputs[n] for n in self.inputs if n.startswith("pre_") and "started" in n]))
            S.t_seen.append(t)
            S.events.append(("now", t))
            return [(S, V("instant", v=t))]
        if re.search(r"Instant::(duration_since|saturating_duration_since)$", c):
            a, b = dv(args[0]), dv(args[1])
            if a.kind != "instant" or b.kind != "instant":
                raise Unsupported("duration_since on non-instants")
            return [(S, V("dur", v=z3.If(a.v >= b.v, a.v - b.v, 0)))]
        if re.search(r"Instant::elapsed$", c):
            raise Unsupported("Instant::elapsed (second clock read) is not modelled")
        m = re.search(r"<(?:std::time::)?Duration as PartialOrd>::(ge|gt|le|lt)$", c)
        if m:
            a, b = dv(args[0]), dv(args[1])
            if a.kind != "dur" or b.kind != "dur":
                raise Unsupported("Duration comparison on non-durations")
            f = {"ge": a.v >= b.v, "gt": a.v > b.v, "le": a.v <= b.v, "lt": a.v < b.v}[m.group(1)]
            return [(S, V("bool", v=f))]
        m = re.search(r"<(?:std::time::)?Duration as (Div|Mul)<u32>>::(div|mul)$", c)
        if m:
            a, b = dv(args[0]), dv(args[1])
            if a.kind != "dur" or b.kind != "int":
                raise Unsupported("Duration arithmetic args")
            if m.group(1) == "Div":
                if mirsmt.feasible(self.dom + S.pc + [b.v == 0]):
                    raise Unsupported("Duration division by a possibly-zero value")
                return [(S, V("dur", v=a.v / b.v))]
            return [(S, V("dur", v=a.v * b.v))]
        m = re.search(r"<(?:std::time::)?Duration as (Add|Sub)>::(add|sub)$", c)
        if m:
            a, b = dv(args[0]), dv(args[1])
            if a.kind != "dur" or b.kind != "dur":
                raise Unsupported("Duration arithmetic args")
            if m.group(1) == "Sub":
                if mirsmt.feasible(self.dom + S.pc + [a.v < b.v]):
                    raise Unsupported("Duration subtraction that may underflow (panics)")
                return [(S, V("dur", v=a.v - b.v))]
            return [(S, V("dur", v=a.v + b.v))]
        if re.search(r"VerifierCircuitData::<.*>::verify$|VerifierCircuitData::verify$", c):
            ok = self.fresh("verify_ok", "bool")
            S.events.append(("verify", ok))
            return [(S, V("enum", ty="Result", disc=z3.If(ok, 0, 1), payload={"Ok": [V("tuple", items=[])], "Err": [OPQ("verify error")]}))]
        if re.search(r"Result::<.*>::map_err::<", c) or re.search(r"anyhow::Context.*>::(with_)?context", c):
            r = args[0]
            if r.kind != "enum":
                raise Unsupported("map_err on " + r.kind)
            return [(S, V("enum", ty="Result", disc=r.disc, payload={"Ok": r.payload.get("Ok", []), "Err": [OPQ("mapped error")]}))]
        if re.search(r" as Try>::branch$", c):
            r = args[0]
            if r.kind != "enum":
                raise Unsupported("Try::branch on " + r.kind)
            resid = V("enum", ty="Result", disc=z3.IntVal(1), payload={"Err": r.payload.get("Err", [OPQ()])})
            return [(S, V("enum", ty="ControlFlow", disc=r.disc, payload={"Continue": r.payload.get("Ok", []), "Break": [resid]}))]
        if re.search(r" as FromResidual<.*>>::from_residual$", c):
            return [(S, V("enum", ty="Result", disc=z3.IntVal(1), payload={"Err": [OPQ("residual")]}))]
        if re.search(r"BTreeMap::<.*>::contains_key::<", c) or re.search(r"BTreeMap::<.*>::contains_key$", c):
            mp, k = dv(args[0]), dv(args[1])
            if mp.kind != "bmap" or k.kind != "key":
                raise Unsupported("contains_key(BTreeMap) args")
            S.events.append(("read", "has"))
            return [(S, V("bool", v=z3.Select(S.st["has"], k.v)))]
        if re.search(r"BTreeMap::<.*>::len$", c):
            if dv(args[0]).kind != "bmap":
                raise Unsupported("BTreeMap::len arg")
            S.events.append(("read", "nb"))
            return [(S, V("int", v=S.st["nb"]))]
        if re.search(r"HashMap::<.*>::contains_key::<", c) or re.search(r"HashMap::<.*>::contains_key$", c):
            mp, n = dv(args[0]), dv(args[1])
            if mp.kind != "hmap" or n.kind != "null":
                raise Unsupported("contains_key(HashMap) args")
            S.events.append(("read", "ni"))
            return [(S, V("bool", v=z3.Select(S.st["ni"], n.v)))]
        if re.search(r"HashMap::<.*>::insert$", c):
            mp, n, k = dv(args[0]), dv(args[1]), dv(args[2])
            if mp.kind != "hmap" or n.kind != "null" or k.kind != "key":
                raise Unsupported("HashMap::insert args")
            S.st["ni"] = z3.Store(S.st["ni"], n.v, True)
            S.st["nik"] = z3.Store(S.st["nik"], n.v, k.v)
            S.events.append(("mut", "ni"))
            return [(S, OPQ("old value"))]
        if re.search(r"HashMap::<.*>::entry$", c):
            mp, n = dv(args[0]), dv(args[1])
            if mp.kind != "hmap" or n.kind != "null":
                raise Unsupported("HashMap::entry args")
            S.events.append(("read", "ni"))
            occ = z3.Select(S.st["ni"], n.v)
            return [(S, V("enum", ty="HEntry", disc=z3.If(occ, 0, 1), payload={"Occupied": [V("hocc", n=n.v)], "Vacant": [V("hvac", n=n.v)]}))]
        if re.search(r"hash_map::VacantEntry::<.*>::insert$|VacantEntry::<.*BytesDigest.*>::insert$", c):
            slot, k = dv(args[0]), dv(args[1])
            if slot.kind != "hvac" or k.kind != "key":
                raise Unsupported("VacantEntry::insert args")
            S.st["ni"] = z3.Store(S.st["ni"], slot.n, True)
            S.st["nik"] = z3.Store(S.st["nik"], slot.n, k.v)
            S.events.append(("mut", "ni"))
            return [(S, OPQ("&mut value"))]
        if re.search(r"hash_map::Entry::<.*>::or_insert$", c) and args and args[0].kind == "enum" and getattr(args[0], "ty", "") == "HEntry":
            e, k = args[0], dv(args[1])
            n = e.payload["Vacant"][0].n
            occ = z3.Select(S.st["ni"], n)
            S.st["nik"] = z3.If(occ, S.st["nik"], z3.Store(S.st["nik"], n, k.v))
            S.st["ni"] = z3.Store(S.st["ni"], n, True)
            S.events.append(("mut", "ni"))
            return [(S, OPQ("&mut value"))]
        if re.search(r"BTreeMap::<.*>::entry$", c):
            mp, k = dv(args[0]), dv(args[1])
            if mp.kind != "bmap" or k.kind != "key":
                raise Unsupported("BTreeMap::entry args")
            return [(S, V("entry", key=k.v))]
        if re.search(r"Entry::<.*>::or_default$|Entry::<.*>::or_insert_with", c):
            e = args[0]
            if e.kind != "entry":
                raise Unsupported("or_default on " + e.kind)
            had = z3.Select(S.st["has"], e.key)
            S.st["nb"] = z3.If(had, S.st["nb"], S.st["nb"] + 1)
            S.st["cnt"] = z3.If(had, S.st["cnt"], z3.Store(S.st["cnt"], e.key, 0))
            S.st["has"] = z3.Store(S.st["has"], e.key, True)
            S.events.append(("mut", "has"))
            return [(S, V("ref", target=("val", V("bucket", key=e.key)), mut=True))]
        if re.search(r"Vec::<PooledProof>::push$|Vec::<pool::PooledProof>::push$", c):
            vec = dv(args[0])
            if vec.kind != "bvec":
                raise Unsupported("Vec::push target " + vec.kind)
            item = args[1]
            S.st["cnt"] = z3.Store(S.st["cnt"], vec.key, z3.Select(S.st["cnt"], vec.key) + 1)
            S.st["total"] = S.st["total"] + 1
            S.events.append(("mut", "cnt"))
            S.pushed = item
            return [(S, V("tuple", items=[]))]
        if re.search(r" as Deref>::deref$", c):
            return [(S, args[0])]
        if re.search(r"slice::<impl \[.*\]>::iter$| as IntoIterator>::into_iter$", c):
            seq = dv(args[0])
            if seq.kind == "ref":
                seq = self.deref(S, seq)
            if seq.kind != "nulls":
                raise Unsupported("iteration over " + seq.kind)
            return [(S, V("iter", seq=seq, pos=0))]
        if re.search(r" as Iterator>::next$", c):
            ref = args[0]
            it = dv(ref)
            if it.kind != "iter":
                raise Unsupported("next on " + it.kind)
            out = []
            if it.pos < self.K:
                S1 = S.fork()
                S1.pc.append(it.seq.len > it.pos)
                self.store_through(S1, ref, V("iter", seq=it.seq, pos=it.pos + 1))
                elem = V("ref", target=("val", V("null", v=it.seq.elems[it.pos])), mut=False)
                out.append((S1, V("enum", ty="Option", disc=z3.IntVal(1), payload={"Some": [elem]})))
            S0 = S.fork()
            S0.pc.append(it.seq.len <= it.pos)
            out.append((S0, V("enum", ty="Option", disc=z3.IntVal(0), payload={})))
            return out
        if re.search(r" as Iterator>::(any|all)::<", c):
            it, clo = dv(args[0]), args[1]
            if it.kind != "iter" or clo.kind != "closure":
                raise Unsupported("any/all args")
            is_any = " as Iterator>::any::<" in c
            terms = []
            for i in range(it.pos, self.K):
                elem = V("ref", target=("val", V("null", v=it.seq.elems[i])), mut=False)
                b = self.call_closure(S, clo, [elem])
                terms.append(z3.And(it.seq.len > i, b) if is_any else z3.Implies(it.seq.len > i, b))
            return [(S, V("bool", v=z3.Or(terms) if is_any else z3.And(terms)))]
        if re.search(r" as Clone>::clone$", c):
            return [(S, dv(args[0]))]
        # ---- a function of the analysed crate that is not in the stub table: execute ITS MIR (keeps the check meaningful
        # when logic is moved into a helper)
        fn = self.same_crate_fn(c, len(args))
        if fn is not None:
            return self.inline_call(S, fn, args)
        # ---- everything else: no effect on the pool; must not get a mutable reference into it
        for a in args:
            if a.kind == "ref" and a.mut and a.target[0] == "heap":
                raise Unsupported("unmodelled call with a mutable reference into the pool: " + c[:80])
            if a.kind == "ref" and a.target[0] == "val" and a.target[1].kind in ("bucket", "bvec") and a.mut:
                raise Unsupported("unmodelled call with a mutable reference into a bucket: " + c[:80])
        self.unknown_calls.add(re.sub(r"<.*>", "<..>", c)[:80])
        return [(S, OPQ("call " + c[:40]))]

    def same_crate_fn(self, callee, nargs):
        """the MIR body of a same-crate function named at a call site, if it can be identified uniquely"""
        if not re.match(r"^[A-Za-z_][\w:]*$", callee):        # generic / trait-qualified calls are never inlined
            return None
        tail = callee.split("::")[-1]
        cands = []
        for name, fl in self.fns.items():
            if "{closure" in name or not (name == callee or name.endswith("::" + tail)):
                continue
            for f in fl:
                if len(f.params) == nargs:
                    cands.append((name, f))
        if "::" in callee:      # Type::method -> the impl block's function whose receiver mentions Type
            ty = callee.split("::")[-2]
            cands = [(n, f) for n, f in cands if "impl at" in n and f.params and ty in f.params[0][1]] or [(n, f) for n, f in cands if n.endswith(callee)]
        names = {n for n, _ in cands}
        if len(names) != 1:
            return None
        return cands[0][1]

    def inline_call(self, S, fn, args, depth=0):
        if getattr(self, "_inline_depth", 0) > 4:
            raise Unsupported("inlining too deep: " + fn.name[-40:])
        env = {}
        for (idx, _), a in zip(fn.params, args):
            # a reference to a caller local is handed over as a reference to its current VALUE (writes through it are refused)
            if a.kind == "ref" and a.target[0] == "local":
                a = V("ref", target=("val", self.deref(S, a)), mut=a.mut)
            env[idx] = a
        sub = State(env, S.heap, dict(S.st), list(S.pc), list(S.events), list(S.t_seen))
        res = []
        self._inline_depth = getattr(self, "_inline_depth", 0) + 1
        try:
            self.run_fn(fn, sub, res)
        finally:
            self._inline_depth -= 1
        out = []
        for (S2, outcome, ret) in res:
            if outcome != "return":
                if not hasattr(self, "inlined_panics"):
                    self.inlined_panics = []
                self.inlined_panics.append((S2, outcome + " (inside " + fn.name[-40:] + ")"))
                continue
            S3 = State(dict(S.env), S2.heap, S2.st, S2.pc, S2.events, S2.t_seen)
            out.append((S3, ret if ret is not None else V("tuple", items=[])))
        self.inlined = getattr(self, "inlined", set()) | {fn.name}
        return out

    def store_through(self, S, ref, val):
        t = ref.target
        if t[0] == "local":
            S.env[t[1]] = self.updated(S.env[t[1]], t[2], val) if t[2] else val
        else:
            raise Unsupported("store through non-local reference")

    def call_closure(self, S, clo, args):
        """execute a (pure, bool-valued) closure from its own MIR; returns a z3 Bool"""
        cands = [f for name, fl in self.fns.items() for f in fl if f.params and clo.name in f.params[0][1] and "::{closure#" in name]
        if len(cands) != 1:
            raise Unsupported("closure body not found: " + clo.name)
        fn = cands[0]
        env = {fn.params[0][0]: V("ref", target=("val", clo), mut=True)}
        for (idx, _), a in zip(fn.params[1:], args):
            env[idx] = a
        sub = State(env, S.heap, dict(S.st), [], [], list(S.t_seen))
        res = []
        self.run_fn(fn, sub, res)
        out = []
        for (S2, outcome, ret) in res:
            if outcome != "return" or ret is None or ret.kind != "bool":
                raise Unsupported("closure does not return a bool on every path")
            if any(e[0] in ("mut", "write", "verify", "now") for e in S2.events):
                raise Unsupported("closure has side effects")
            S.events += [e for e in S2.events if e not in S.events[-len(S2.events):]] if S2.events else []
            out.append(z3.And(S2.pc + [ret.v]))
        return z3.Or(out)

    # ---- CFG walk
    def run_fn(self, fn, S, sink, bb=0, depth=0):
        if depth > 600:
            raise Unsupported("CFG too deep")
        for line in fn.blocks[bb]:
            line = line.rstrip(";")
            if line.startswith(("StorageLive", "StorageDead", "nop", "PlaceMention", "FakeRead", "Retag", "AscribeUserType", "Coverage", "debug ")):
                continue
            if line == "return":
                sink.append((S, "return", S.env.get(0)))
                return
            if line == "unreachable":
                if mirsmt.feasible(self.dom + S.pc):
                    sink.append((S, "unreachable", None))
                return
            if line.startswith(("resume", "abort")):
                return
            m = re.match(r"goto -> bb(\d+)$", line)
            if m:
                return self.run_fn(fn, S, sink, int(m.group(1)), depth + 1)
            m = re.match(r"switchInt\((.*)\) -> \[(.*)\]$", line)
            if m:
                v = self.operand(S, m.group(1))
                if v.kind not in ("int", "bool") and getattr(self, "havoc", False):
                    v = V("int", v=self.fresh("havoc_branch"))
                if v.kind not in ("int", "bool"):
                    raise Unsupported(f"branch on a {v.kind} value ({getattr(v, 'why', '')}) in {fn.name[-30:]} bb{bb}")
                taken = []
                for case in m.group(2).split(","):
                    k, tgt = case.strip().split(": ")
                    tgt = int(tgt[2:])
                    if k == "otherwise":
                        cond = z3.And([z3.Not(c) for c in taken]) if taken else z3.BoolVal(True)
                    else:
                        kv = int(k)
                        cond = (v.v if kv == 1 else z3.Not(v.v)) if v.kind == "bool" else (v.v == kv)
                        taken.append(cond)
                    cond = z3.simplify(cond)
                    if z3.is_false(cond):
                        continue
                    if mirsmt.feasible(self.dom + S.pc + [cond]):
                        S2 = S.fork()
                        S2.pc.append(cond)
                        self.run_fn(fn, S2, sink, tgt, depth + 1)
                return
            m = re.match(r"assert\((!?)(.*?), \"(.*?)\".*\) -> \[success: bb(\d+), unwind.*\]$", line)
            if m:
                c = self.operand(S, m.group(2))
                if c.kind != "bool":
                    raise Unsupported("assert on " + c.kind)
                good = z3.Not(c.v) if m.group(1) else c.v
                if mirsmt.feasible(self.dom + S.pc + [z3.Not(good)]):
                    Sp = S.fork()
                    Sp.pc.append(z3.Not(good))
                    sink.append((Sp, "panic: " + m.group(3), None))
                S.pc.append(good)
                return self.run_fn(fn, S, sink, int(m.group(4)), depth + 1)
            m = re.match(r"drop\(.*\) -> \[return: bb(\d+).*\]$", line)
            if m:
                return self.run_fn(fn, S, sink, int(m.group(1)), depth + 1)
            m = re.match(r"(.+?) = (.+)\) -> \[return: bb(\d+), unwind.*\]$", line)
            if m and not m.group(1).startswith(("switchInt", "assert", "drop")):
                callee, argtext = split_call(m.group(2) + ")")
                for (S2, val) in self.call(S, callee, argtext):
                    if mirsmt.feasible(self.dom + S2.pc):
                        self.write(S2, parse_place(m.group(1)), val)
                        self.run_fn(fn, S2, sink, int(m.group(3)), depth + 1)
                return
            m = re.match(r"(.+?) = (.+)\) -> unwind.*$", line)
            if m:
                sink.append((S, "panic: diverging call " + m.group(2)[:40], None))
                return
            m = re.match(r"(.+?) = (.*)$", line)
            if m:
                val = self.rvalue(S, m.group(2))
                must = getattr(val, "must", None)
                if must is not None:
                    if mirsmt.feasible(self.dom + S.pc + [z3.Not(must)]):
                        Sp = S.fork()
                        Sp.pc.append(z3.Not(must))
                        sink.append((Sp, "overflow in plain arithmetic: " + m.group(2)[:60], None))
                    S.pc.append(must)
                self.write(S, parse_place(m.group(1)), val)
                continue
            raise Unsupported("MIR statement: " + line[:100])
        raise Unsupported("block without terminator")

    def run_push(self):
        cands = [f for name, fl in self.fns.items() for f in fl if name.endswith("::push") and "ProofPool" in f.params[0][1]]
        if len(cands) != 1:
            raise Unsupported(f"ProofPool::push not found uniquely in the MIR dump ({len(cands)} candidates)")
        fn = cands[0]
        heap, st = self.initial()
        env = {fn.params[0][0]: V("ref", target=("heap", []), mut=True), fn.params[1][0]: OPQ("submitted proof")}
        S = State(env, heap, st, [], [], [])
        sink = []
        self.run_fn(fn, S, sink)
        sink += [(S2, outcome, None) for (S2, outcome) in getattr(self, "inlined_panics", [])]
        self.paths = sink
        return sink


def split_call(text):
    """'<callee>(<args>)' -> (callee, args) using the LAST balanced parenthesis group"""
    assert text.endswith(")")
    depth = 0
    for i in range(len(text) - 1, -1, -1):
        if text[i] == ")":
            depth += 1
        elif text[i] == "(":
            depth -= 1
            if depth == 0:
                return text[:i].strip(), text[i + 1:-1]
    raise Unsupported("call syntax: " + text[:80])


def struct_fields(src, name):
    m = re.search(r"struct " + name + r"\s*\{(.*?)\n\}", src, re.S)
    if not m:
        raise Unsupported("struct " + name + " not found in pool.rs")
    out = []
    for line in m.group(1).split("\n"):
        line = line.strip()
        if not line or line.startswith(("//", "#")):
            continue
        fm = re.match(r"(?:pub(?:\([^)]*\))? )?(\w+): (.*?),?$", line)
        if fm:
            out.append((fm.group(1), fm.group(2)))
    return out
