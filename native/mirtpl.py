"""MIR -> SMT for the two padding-template validators of the aggregator
(`verify_dummy_leaf_template`, `verify_dummy_private_batch_template`), from the MIR of /repo's current source.

Stubs (each part of the claim):
  <Parser>::try_from_u64_slice     -> arbitrary Result; Ok carries a struct whose scalar fields are arbitrary integers, whose digests are
                                      arbitrary values of an uninterpreted sort, whose account list has symbolic length <= K
                                      (what the parser accepts and that it returns the proof's own fields is C24's subject)
  <BytesDigest as Default>::default -> the constant ZERO digest;  PartialEq::eq/ne on digests -> (dis)equality
  VerifierCircuitData::verify      -> arbitrary Result, recorded as an event
  iter/enumerate/next over the account list; map/collect of the public-input felts -> opaque (only handed to the parser stub)
  Context/map_err/format!/anyhow!  -> no effect
"""
import re

import z3

import mirpool
import mirsmt
from mirpool import V, OPQ, Unsupported, State

Digest = z3.DeclareSort("Digest")
ZERO = z3.Const("ZERO_DIGEST", Digest)


class TplExec(mirpool.PoolExec):
    def __init__(self, mir_text, inputs_src, K=3):
        self.fns, self.consts = mirsmt.parse(mir_text)
        self.K = K
        self.src = inputs_src
        self.nfresh = 0
        self.paths = []
        self.unknown_calls = set()
        self.inputs = {}
        self.dom = []
        self.fields = {}

    def sym_struct(self, name, prefix):
        """symbolic instance of a parsed public-input struct, from its declaration in wormhole/inputs/src/lib.rs"""
        out = {}
        for i, (fname, fty) in enumerate(mirpool.struct_fields(self.src, name)):
            fty = fty.strip()
            key = f"{prefix}{fname}"
            if fty in ("u32", "u64", "usize", "u16", "u8"):
                v = z3.Int(key)
                self.dom += [v >= 0, v < 2 ** {"u8": 8, "u16": 16, "u32": 32}.get(fty, 64)]
                out[i] = V("int", v=v)
                self.fields[key] = v
            elif fty == "BytesDigest":
                v = z3.Const(key, Digest)
                out[i] = V("digest", v=v)
                self.fields[key] = v
            elif fty == "BlockData":
                out[i] = self.sym_struct("BlockData", key + ".")
            elif fty == "Vec<PublicInputsByAccount>":
                L = z3.Int(key + ".len")
                self.dom += [L >= 0, L <= self.K]
                self.fields[key + ".len"] = L
                out[i] = V("list", elems=[self.sym_struct("PublicInputsByAccount", f"{key}[{j}].") for j in range(self.K)], len=L)
            else:
                out[i] = OPQ(fname)
        return V("struct", fields=out)

    def call(self, S, callee, argtext):
        args = []
        for x in mirsmt.split_args(argtext):
            try:
                args.append(self.operand(S, x))
            except Unsupported:
                args.append(OPQ("arg"))
        c = re.sub(r"\s+", " ", callee)

        def dv(a):
            return self.deref(S, a) if a.kind == "ref" else a
        m = re.search(r"(PublicCircuitInputs|PrivateBatchPublicInputs)::try_from_u64_slice$", c)
        if m:
            ok = self.fresh("parse_ok", "bool")
            self.inputs["parse_ok"] = ok
            S.events.append(("parse", m.group(1)))
            st = self.sym_struct(m.group(1), "pis.")
            return [(S, V("enum", ty="Result", disc=z3.If(ok, 0, 1), payload={"Ok": [st], "Err": [OPQ("parse error")]}))]
        m = re.search(r"(verify_dummy_leaf_template|verify_dummy_private_batch_template)$", c)
        if m:
            ok = self.fresh("template_valid", "bool")
            S.events.append(("validate", m.group(1), ok))
            return [(S, V("enum", ty="Result", disc=z3.If(ok, 0, 1), payload={"Ok": [V("tuple", items=[])], "Err": [OPQ("validation error")]}))]
        if re.search(r"<BytesDigest as Default>::default$", c):
            return [(S, V("digest", v=ZERO))]
        m = re.search(r"<BytesDigest as PartialEq>::(ne|eq)$", c)
        if m:
            a, b = dv(args[0]), dv(args[1])
            if a.kind != "digest" or b.kind != "digest":
                raise Unsupported("digest comparison on " + a.kind + "/" + b.kind)
            return [(S, V("bool", v=(a.v != b.v) if m.group(1) == "ne" else (a.v == b.v)))]
        if re.search(r"VerifierCircuitData::<.*>::verify$|VerifierCircuitData::verify$", c):
            ok = self.fresh("verify_ok", "bool")
            S.events.append(("verify", ok))
            return [(S, V("enum", ty="Result", disc=z3.If(ok, 0, 1), payload={"Ok": [V("tuple", items=[])], "Err": [OPQ("verify error")]}))]
        if re.search(r"anyhow::Context<.*>>::(with_)?context::<", c) or re.search(r"Result::<.*>::map_err::<", c):
            r = args[0]
            if r.kind != "enum" and getattr(self, "havoc", False):
                return [(S, r)]
            if r.kind != "enum":
                raise Unsupported("context on " + r.kind)
            return [(S, V("enum", ty="Result", disc=r.disc, payload={"Ok": r.payload.get("Ok", []), "Err": [OPQ("error with context")]}))]
        if re.search(r" as Try>::branch$", c):
            r = args[0]
            if r.kind != "enum" and getattr(self, "havoc", False):
                d = self.fresh("havoc_try")
                self.dom.append(z3.Or(d == 0, d == 1))
                return [(S, V("enum", ty="ControlFlow", disc=d, payload={"Continue": [OPQ("value")], "Break": [OPQ("residual")]}))]
            if r.kind != "enum":
                raise Unsupported("Try::branch on " + r.kind)
            resid = V("enum", ty="Result", disc=z3.IntVal(1), payload={"Err": r.payload.get("Err", [OPQ()])})
            return [(S, V("enum", ty="ControlFlow", disc=r.disc, payload={"Continue": r.payload.get("Ok", []), "Break": [resid]}))]
        if re.search(r" as FromResidual<.*>>::from_residual$", c):
            return [(S, V("enum", ty="Result", disc=z3.IntVal(1), payload={"Err": [OPQ("residual")]}))]
        if re.search(r" as Deref>::deref$", c):
            return [(S, args[0])]
        if re.search(r"slice::<impl \[.*\]>::iter$", c):
            seq = dv(args[0])
            if seq.kind == "ref":
                seq = self.deref(S, seq)
            if seq.kind == "list":
                return [(S, V("iter", seq=seq, pos=0, enum=False))]
            return [(S, OPQ("iterator over public-input felts"))]
        if re.search(r" as Iterator>::enumerate$", c):
            it = args[0]
            if it.kind != "iter":
                raise Unsupported("enumerate on " + it.kind)
            return [(S, V("iter", seq=it.seq, pos=it.pos, enum=True))]
        if re.search(r" as IntoIterator>::into_iter$", c):
            it = dv(args[0])
            if it.kind == "iter":
                return [(S, it)]
            if it.kind == "list":
                return [(S, V("iter", seq=it, pos=0, enum=False))]
            raise Unsupported("into_iter on " + it.kind)
        if re.search(r" as Iterator>::next$", c):
            ref = args[0]
            it = dv(ref)
            if it.kind != "iter":
                raise Unsupported("next on " + it.kind)
            out = []
            if it.pos < self.K:
                S1 = S.fork()
                S1.pc.append(it.seq.len > it.pos)
                self.store_through(S1, ref, V("iter", seq=it.seq, pos=it.pos + 1, enum=it.enum))
                elem = V("ref", target=("val", it.seq.elems[it.pos]), mut=False)
                item = V("tuple", items=[V("int", v=z3.IntVal(it.pos)), elem]) if it.enum else elem
                out.append((S1, V("enum", ty="Option", disc=z3.IntVal(1), payload={"Some": [item]})))
            S0 = S.fork()
            S0.pc.append(it.seq.len <= it.pos)
            out.append((S0, V("enum", ty="Option", disc=z3.IntVal(0), payload={})))
            return out
        if re.search(r" as Iterator>::(all|any)::<", c):
            it, clo = dv(args[0]), args[1]
            if it.kind != "iter" or clo.kind != "closure":
                raise Unsupported("all/any args")
            is_any = " as Iterator>::any::<" in c
            terms = []
            for i in range(it.pos, self.K):
                elem = V("ref", target=("val", it.seq.elems[i]), mut=False)
                b = self.call_closure(S, clo, [elem])
                terms.append(z3.And(it.seq.len > i, b) if is_any else z3.Implies(it.seq.len > i, b))
            return [(S, V("bool", v=z3.Or(terms) if is_any else z3.And(terms)))]
        if re.search(r" as Clone>::clone$", c):
            return [(S, dv(args[0]))]
        if not getattr(self, "havoc", False):
            fn = self.same_crate_fn(c, len(args))
            if fn is not None:      # a helper of the analysed crate: follow the logic into it
                return self.inline_call(S, fn, args)
        self.unknown_calls.add(re.sub(r"<.*>", "<..>", c)[:80])
        return [(S, OPQ("call " + c[:40]))]

    def run_validator(self, fn_name):
        cands = [f for name, fl in self.fns.items() for f in fl if name.endswith(fn_name) and "closure" not in name]
        if len(cands) != 1:
            raise Unsupported(f"{fn_name} not found uniquely in the MIR dump")
        fn = cands[0]
        proof = V("struct", fields={0: OPQ("proof"), 1: OPQ("public input felts")})
        env = {fn.params[0][0]: V("ref", target=("val", proof), mut=False), fn.params[1][0]: OPQ("verifier data")}
        S = State(env, V("struct", fields={}), {}, [], [], [])
        sink = []
        self.run_fn(fn, S, sink)
        self.paths = sink
        return sink


    def run_caller(self, name_pattern):
        """over-approximating run (havoc mode) of a function that accepts a padding template"""
        self.havoc = True
        cands = [(name, f) for name, fl in self.fns.items() for f in fl if re.search(name_pattern, name) and "closure" not in name]
        if len(cands) != 1:
            raise Unsupported(f"{name_pattern}: {len(cands)} candidates in the MIR dump")
        name, fn = cands[0]
        env = {idx: OPQ(f"param {idx}") for idx, _ in fn.params}
        S = State(env, V("struct", fields={}), {}, [], [], [])
        sink = []
        self.run_fn(fn, S, sink)
        return name, sink
