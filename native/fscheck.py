"""C23: artifact publication is atomic under failures and crashes - solver check over the MIR of the publish
routine (native/mirfs.py) and replay of counterexamples on a real directory (csx-emit publishrun)."""
import json
import os
import subprocess
import time

import z3

import mirfs
import mirsmt
from mirfs import NONE, PREV, NEW, FILE, PARTIAL, NAMES

VERIF = os.path.dirname(os.path.dirname(os.path.abspath(__file__)))
WORK = os.path.join(VERIF, "work")


class Q:
    def __init__(self, name, verdict, secs, kind="holds"):
        self.name, self.verdict, self.secs, self.kind = name, verdict, secs, kind
        self.cex = []
        self.model = None


def load():
    mir = mirsmt.dump_mir("/repo/wormhole/circuit-builder", os.path.join(WORK, "mir-target"))
    ex = mirfs.FsExec(mir)
    ex.run_commit()
    eg = mirfs.FsExec(mir)
    gpaths = eg.run_generate()
    return ex, eg, gpaths


def solve(dom, conds, timeout_s=60):
    s = z3.Solver()
    s.set("timeout", int(timeout_s * 1000))
    s.add(dom)
    s.add(conds)
    t0 = time.time()
    r = s.check()
    return r, (s.model() if r == z3.sat else None), time.time() - t0


def inv(pre, st):
    """what may be on disk at ANY instant: the output path holds the complete previous set (whatever was there
    before, possibly nothing) or the complete new set; or it is empty while BOTH complete copies survive"""
    return z3.Or(st["OUT"] == pre["OUT"], st["OUT"] == NEW, z3.And(st["OUT"] == NONE, st["OLD"] == pre["OUT"], st["STAGE"] == NEW))


def is_ok(ret):
    return ret.disc == 0


def obligations(ex, eg, gpaths):
    out = []
    pre = ex.pre
    staged = [pre["STAGE"] == NEW]
    bad = [(S, o) for (S, o, r) in ex.paths if o != "return"]
    q = Q(f"commit_staging_dir_impl: every one of the {len(ex.paths)} MIR paths returns (no reachable panic / unreachable block)", "HOLDS" if not bad else "CEX", 0.0)
    out.append(q)

    def per_path(name, goal_fn, paths, dom, assume):
        secs, verdict, cex = 0.0, "HOLDS", []
        for (S, outcome, ret) in paths:
            if outcome != "return":
                continue
            for label, g in goal_fn(S, ret):
                r, m, dt = solve(dom, assume + S.pc + [z3.Not(g)])
                secs += dt
                if r == z3.sat:
                    verdict = "CEX"
                    cex.append((S, label, m))
                elif r != z3.unsat and verdict != "CEX":
                    verdict = "UNKNOWN"
        qq = Q(name, verdict, secs)
        qq.cex = cex
        out.append(qq)

    per_path("crash consistency: after EVERY filesystem operation (= every possible crash point) and at return, the output path holds the complete previous set or the "
             "complete new set, or is empty while both complete copies survive (moved-aside previous set and staged new set)",
             lambda S, ret: [((e[1], e[2]), inv(pre, e[2])) for e in S.events if e[0] == "snap"] + [(("return", None), inv(pre, S.st))], ex.paths, ex.dom, staged)
    per_path("success is reported iff the new set is live at the output path",
             lambda S, ret: [("return", is_ok(ret) == (S.st["OUT"] == NEW))], ex.paths, ex.dom, staged)
    per_path("a staging path that is not a directory is refused without touching the output",
             lambda S, ret: [("return", z3.And(z3.Not(is_ok(ret)), S.st["OUT"] == pre["OUT"]))], ex.paths, ex.dom, [pre["STAGE"] != NEW])
    r, m, dt = solve(ex.dom, staged + [z3.Or([z3.And(S.pc + [is_ok(ret), pre["OUT"] == PREV]) for (S, o, ret) in ex.paths if o == "return"])])
    out.append(Q("vacuity: a previous set can be replaced successfully", "REACHABLE" if r == z3.sat else "VACUOUS", dt, kind="sat"))
    r, m, dt = solve(ex.dom, staged + [z3.Or([z3.And(S.pc + [S.st["OUT"] == NONE, pre["OUT"] == PREV]) for (S, o, ret) in ex.paths if o == "return"])])
    out.append(Q("vacuity: the double-failure outcome (swap-in and rollback both fail) is reachable", "REACHABLE" if r == z3.sat else "VACUOUS", dt, kind="sat"))

    # generate_all_circuit_binaries: the failure branch
    gpre = eg.pre

    def gen_goal(S, ret):
        gen = [e for e in S.events if e[0] == "generate"]
        commits = [e for e in S.events if e[0] == "commit"]
        touches_out = [e for e in S.events if e[0] == "fs" and "OUT" in e[2:-1]]
        rm = [e for e in S.events if e[0] == "fs" and e[1] == "remove_dir_all" and e[2] == "STAGE"]
        goals = []
        if commits:
            # commit runs only after a successful generation, on (staging, output)
            goals.append(("commit", z3.And(z3.BoolVal(bool(gen)), gen[0][1] if gen else z3.BoolVal(False), z3.BoolVal(commits[0][1] == "STAGE" and commits[0][2] == "OUT"))))
        else:
            goals.append(("failed run", z3.And(z3.Not(is_ok(ret)), z3.BoolVal(not touches_out), S.st["OUT"] == gpre["OUT"])))
            if gen:
                goals.append(("staging removed", z3.And(z3.BoolVal(bool(rm)), z3.Implies(rm[0][-1], S.st["STAGE"] == NONE) if rm else z3.BoolVal(False))))
            else:
                goals.append(("no staging", S.st["STAGE"] == gpre["STAGE"]))
        return goals
    per_path("generate_all_circuit_binaries: publication is attempted only after a successful generation; a failed generation (or invalid counts, or no staging dir) "
             "reports failure, never touches the output path, and removes its staging directory",
             gen_goal, gpaths, eg.dom, [])
    return out


# ----------------------------------------------------------------------------- replay on a real directory
def scenario_from(ex, S, m):
    """the rename fates along the path + crash at the violating snapshot"""
    ev = lambda e: m.eval(e, model_completion=True)
    code = lambda e: ev(e).as_long()
    sc = {"out": NAMES[code(ex.pre["OUT"])], "stage": NAMES[code(ex.pre["STAGE"])], "renames": []}
    needs_rm_fault = False
    for e in S.events:
        if e[0] == "fs" and e[1] == "rename":
            sc["renames"].append("ok" if z3.is_true(ev(e[-1])) else "fail")
        if e[0] == "fs" and e[1] == "remove_dir_all" and not z3.is_true(ev(e[-1])):
            needs_rm_fault = True
    return sc, needs_rm_fault


def judge(sc, rep):
    """the property on the real outcome"""
    prev = sc["out"]
    why = []
    ok_state = rep["out"] in (prev, "new set") or (rep["out"] == "absent" and rep["old"] == prev and rep["stage"] == "new set")
    if sc["stage"] == "new set" and not ok_state:
        why.append(f"on disk after the run: output = {rep['out']}, moved-aside = {rep['old']}, staging = {rep['stage']} (previous was: {prev})")
    if rep["result"] != "crashed" and sc["stage"] == "new set" and (rep["result"] == "ok") != (rep["out"] == "new set"):
        why.append(f"reported {rep['result'][:40]!r} while the output path holds: {rep['out']}")
    return why


def replay(pid, tag, ex, S, label, m, emit_bin, snap_state=None):
    d = os.path.join(VERIF, "evidence", "replays")
    os.makedirs(d, exist_ok=True)
    sc, rmfault = scenario_from(ex, S, m)
    sc["root"] = os.path.join(WORK, f"publish-{os.getpid()}")
    # crash point: the label names the operation after which the snapshot was taken
    variants = [dict(sc)]
    if snap_state is not None:
        # the process dies right after the operation whose snapshot violates the invariant = before the next rename call
        # (and, if that operation is itself a successful rename, equivalently right after it)
        r, op = 0, None
        for e in S.events:
            if e[0] == "fs":
                op = e
                if e[1] == "rename":
                    r += 1
            if e[0] == "snap" and e[2] is snap_state:
                break
        v = dict(sc)
        v["renames"] = list(sc["renames"][:r]) + ["crash_before"]
        variants.insert(0, v)
        if op is not None and op[1] == "rename" and r >= 1 and sc["renames"][r - 1] == "ok":
            w = dict(sc)
            w["renames"] = list(sc["renames"][:r])
            w["renames"][r - 1] = "crash_after"
            variants.insert(0, w)
    opath = os.path.join(d, f"{pid}.{tag}.json")
    tried = []
    for v in variants:
        sp = os.path.join(WORK, f"publish-scenario-{os.getpid()}.json")
        op = sp + ".out"
        json.dump(v, open(sp, "w"))
        p = subprocess.run([emit_bin, "publishrun", sp, op], capture_output=True, text=True, timeout=120)
        if p.returncode != 0 or not os.path.exists(op):
            tried.append({"scenario": v, "error": p.stderr[-800:]})
            continue
        rep = json.load(open(op))
        os.remove(op)
        os.remove(sp)
        why = judge(v, rep)
        tried.append({"scenario": v, "real": rep, "violations": why})
        if why:
            json.dump({"crash_point": label, "runs": tried}, open(opath, "w"), indent=1)
            return True, opath, "; ".join(why)
    json.dump({"crash_point": label, "runs": tried, "note": "needs an injected remove_dir_all failure, which the real-directory driver cannot produce" if rmfault else ""}, open(opath, "w"), indent=1)
    return False, opath, ("the counterexample needs a failing remove_dir_all, which cannot be injected on a real directory" if rmfault
                          else "the real routine behaves as the property requires on the replayed fault schedule")


BATTERY = [
    {"out": "previous set", "stage": "new set", "renames": ["ok", "ok"]},
    {"out": "previous set", "stage": "new set", "renames": ["fail"]},
    {"out": "previous set", "stage": "new set", "renames": ["ok", "fail", "ok"]},
    {"out": "previous set", "stage": "new set", "renames": ["ok", "fail", "fail"]},
    {"out": "absent", "stage": "new set", "renames": ["ok"]},
    {"out": "absent", "stage": "new set", "renames": ["fail"]},
    {"out": "file", "stage": "new set", "renames": []},
    {"out": "previous set", "stage": "absent", "renames": []},
]
CODE = {v: k for k, v in NAMES.items()}


def validate_translation(ex, emit_bin):
    """every scripted fault schedule is run on a real directory; the real result and final directory contents must be
    reproduced by a MIR path of the model under the same rename fates (remove_dir_all succeeding)"""
    ok, fails = 0, []
    for i, sc in enumerate(BATTERY):
        v = dict(sc)
        v["root"] = os.path.join(WORK, f"publish-val-{os.getpid()}")
        sp = os.path.join(WORK, f"publish-val-{os.getpid()}.json")
        json.dump(v, open(sp, "w"))
        p = subprocess.run([emit_bin, "publishrun", sp, sp + ".out"], capture_output=True, text=True, timeout=120)
        if p.returncode != 0:
            fails.append(f"schedule {i}: driver failed")
            continue
        rep = json.load(open(sp + ".out"))
        os.remove(sp + ".out")
        os.remove(sp)
        real = {k: CODE.get(rep[k], PARTIAL) for k in ("out", "stage", "old")}
        alts = []
        for (S, outcome, ret) in ex.paths:
            if outcome != "return":
                continue
            rens = [e for e in S.events if e[0] == "fs" and e[1] == "rename"]
            if len(rens) != len(rep["renames"]):
                continue
            fates = [e[-1] == (f["fate"] == "ok") for e, f in zip(rens, rep["renames"])]
            alts.append(z3.And(S.pc + fates + [is_ok(ret) == (rep["result"] == "ok"), S.st["OUT"] == real["out"], S.st["STAGE"] == real["stage"], S.st["OLD"] == real["old"]]))
        r, m, dt = solve(ex.dom, [ex.pre["OUT"] == CODE[sc["out"]], ex.pre["STAGE"] == CODE[sc["stage"]], z3.Or(alts) if alts else z3.BoolVal(False)])
        if r == z3.sat:
            ok += 1
        else:
            fails.append(f"schedule {i} {sc}: no MIR path reproduces the real outcome {rep['result'][:30]} / {rep['out']} / {rep['stage']} / {rep['old']}")
    return ok, fails


def replay_generation(pid, tag, eg, S, m, emit_bin):
    """a failed generation on the REAL generate_all_circuit_binaries (the driver makes the first artifact write fail)"""
    d = os.path.join(VERIF, "evidence", "replays")
    os.makedirs(d, exist_ok=True)
    prev = NAMES[m.eval(eg.pre["OUT"], model_completion=True).as_long()]
    sc = {"root": os.path.join(WORK, f"publish-{os.getpid()}"), "mode": "failed_generation", "out": prev}
    sp = os.path.join(WORK, f"publish-scenario-{os.getpid()}.json")
    json.dump(sc, open(sp, "w"))
    p = subprocess.run([emit_bin, "publishrun", sp, sp + ".out"], capture_output=True, text=True, timeout=900)
    opath = os.path.join(d, f"{pid}.{tag}.json")
    if p.returncode != 0 or not os.path.exists(sp + ".out"):
        json.dump({"scenario": sc, "error": p.stderr[-800:]}, open(opath, "w"))
        return False, opath, "driver failed"
    rep = json.load(open(sp + ".out"))
    os.remove(sp + ".out")
    os.remove(sp)
    why = []
    if not rep["result"].startswith("err"):
        json.dump({"scenario": sc, "real": rep}, open(opath, "w"), indent=1)
        return False, opath, "the driver could not make the generation fail"
    if rep["out"] != prev:
        why.append(f"a failed generation changed the output path: {prev} -> {rep['out']}")
    if rep["staging_leftovers"]:
        why.append(f"a failed generation left its staging directory behind: {rep['staging_leftovers']}")
    json.dump({"scenario": sc, "real": rep, "violations": why}, open(opath, "w"), indent=1)
    return bool(why), opath, ("; ".join(why) if why else "the real routine cleans up after the failed generation")
