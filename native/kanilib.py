"""Runner for the Kani (CBMC) harness crates under /verif/kani-h: builds against /repo's current
working tree, runs harnesses under time/memory caps, parses verdicts and vacuity covers, replays
failures concretely, writes evidence."""
import json
import os
import re
import resource
import shutil
import subprocess
import sys
import time
from concurrent.futures import ThreadPoolExecutor

VERIF = os.path.dirname(os.path.dirname(os.path.abspath(__file__)))
WORK = os.path.join(VERIF, "work")
KH = os.path.join(VERIF, "kani-h")


def env_seed():
    try:
        return int(os.environ.get("VERIF_SEED", "1"))
    except ValueError:
        return 1


def _limits(mem_gb):
    def f():
        b = int(mem_gb * (1 << 30))
        resource.setrlimit(resource.RLIMIT_AS, (b, b))
    return f


class HarnessResult:
    def __init__(self, crate, name):
        self.crate, self.name = crate, name
        self.verdict = "UNKNOWN"     # SUCCESSFUL | FAILED | TIMEOUT | ERROR | UNKNOWN
        self.secs = 0.0
        self.covers = (0, 0)
        self.failed_checks = []
        self.log = ""
        self.stubs = []

    def as_sample(self):
        return {"harness": f"{self.crate}::{self.name}", "verdict": self.verdict, "cbmc_s": round(self.secs, 2),
                "cover_satisfied": f"{self.covers[0]}/{self.covers[1]}", "stubs": self.stubs, "failed_checks": self.failed_checks[:5]}


def parse_kani_output(crate, text):
    res = {}
    blocks = re.split(r"Checking harness ", text)
    for b in blocks[1:]:
        name = b.split("...")[0].strip().split("::")[-1]
        r = HarnessResult(crate, name)
        r.log = b[-3000:]
        m = re.search(r"VERIFICATION:- (\w+)", b)
        if m:
            r.verdict = m.group(1)
        m = re.search(r"Verification Time: ([0-9.]+)s", b)
        if m:
            r.secs = float(m.group(1))
        m = re.search(r"\*\* (\d+) of (\d+) cover properties satisfied", b)
        if m:
            r.covers = (int(m.group(1)), int(m.group(2)))
        r.stubs = re.findall(r"- Stub: (.*)", b)
        for fm in re.finditer(r"Failed Checks: (.*)\n\s*File: \"([^\"]*)\", line (\d+)", b):
            r.failed_checks.append(f"{fm.group(1)} @ {fm.group(2)}:{fm.group(3)}")
        if "Status: ERROR" in b or "CBMC failed" in b or "out of memory" in b.lower():
            if r.verdict != "SUCCESSFUL":
                r.verdict = "ERROR"
        if "unwinding assertion" in b and "FAILURE" in b and r.verdict == "FAILED":
            r.failed_checks.append("unwinding assertion (bound too small)")
        res[name] = r
    return res


def run_harness(crate, harness, timeout_s, mem_gb=12, extra_args=()):
    """one `cargo kani --harness` invocation in its own target dir (safe to run concurrently)"""
    src = os.path.join(KH, crate)
    lock = os.path.join(src, "Cargo.lock")
    if not os.path.exists(lock):
        shutil.copy("/repo/Cargo.lock", lock)
    tdir = os.path.join(WORK, "kani-target", crate)     # shared per crate: compiled once (see warm_up), CBMC runs in parallel
    env = dict(os.environ)
    env["CARGO_NET_OFFLINE"] = "true"
    cmd = ["cargo", "kani", "-Z", "stubbing", "--target-dir", tdir, "--harness", harness] + list(extra_args)
    t0 = time.time()
    # own process group, so a timeout can kill cargo-kani AND its cbmc children without pattern matching
    proc = subprocess.Popen(cmd, cwd=src, env=env, stdout=subprocess.PIPE, stderr=subprocess.STDOUT, text=True,
                            preexec_fn=lambda: (os.setsid(), _limits(mem_gb)()))
    try:
        out, _ = proc.communicate(timeout=timeout_s)
        timed_out = False
    except subprocess.TimeoutExpired:
        timed_out = True
        try:
            os.killpg(proc.pid, 9)
        except ProcessLookupError:
            pass
        out, _ = proc.communicate()
        out = out or ""
    res = parse_kani_output(crate, out).get(harness)
    if res is None:
        res = HarnessResult(crate, harness)
        res.log = out[-3000:]
        if "error: could not compile" in out or "error[E" in out:
            res.verdict = "BUILD_ERROR"
    if timed_out:
        res.verdict = "TIMEOUT"
    res.secs = res.secs or (time.time() - t0)
    res.wall = time.time() - t0
    return res


def warm_up(crate, timeout_s=3600):
    """compile the harness crate (and /repo's crates it depends on) once, so that the per-harness runs
    that follow only do code generation for their harness and the CBMC run"""
    src = os.path.join(KH, crate)
    lock = os.path.join(src, "Cargo.lock")
    if not os.path.exists(lock):
        shutil.copy("/repo/Cargo.lock", lock)
    env = dict(os.environ)
    env["CARGO_NET_OFFLINE"] = "true"
    tdir = os.path.join(WORK, "kani-target", crate)
    t0 = time.time()
    p = subprocess.run(["cargo", "kani", "-Z", "stubbing", "--target-dir", tdir, "--only-codegen"], cwd=src, env=env,
                       stdout=subprocess.PIPE, stderr=subprocess.STDOUT, text=True, timeout=timeout_s)
    if p.returncode != 0 and ("error: could not compile" in p.stdout or "error[E" in p.stdout):
        return False, p.stdout[-3000:]
    return True, f"{time.time() - t0:.1f}s"


def run_many(jobs, timeout_s, mem_gb=12, parallel=6):
    """jobs: list of (crate, harness). Returns list of HarnessResult in order."""
    for crate in sorted({c for c, _ in jobs}):
        ok, msg = warm_up(crate)
        print(f"  [kani] build of harness crate '{crate}' against /repo: {'ok ' + msg if ok else 'FAILED'}", flush=True)
        if not ok:
            out = []
            for c, h in jobs:
                r = HarnessResult(c, h)
                r.verdict = "BUILD_ERROR" if c == crate else "UNKNOWN"
                r.log = msg
                out.append(r)
            return out
    with ThreadPoolExecutor(max_workers=parallel) as ex:
        futs = [ex.submit(run_harness, c, h, timeout_s, mem_gb) for c, h in jobs]
        out = []
        for (c, h), f in zip(jobs, futs):
            r = f.result()
            print(f"  [kani] {c}::{h:55s} {r.verdict:11s} covers {r.covers[0]}/{r.covers[1]}  {r.secs:7.1f}s", flush=True)
            out.append(r)
        return out


def playback(crate, harness, timeout_s=900):
    """Concrete playback of a failing harness: Kani prints a unit test with the counterexample values;
    we compile and run that test natively (cargo kani playback). Returns (reproduced, text)."""
    src = os.path.join(KH, crate)
    tdir = os.path.join(WORK, "kani-target", f"{crate}-{harness}-pb")
    env = dict(os.environ)
    env["CARGO_NET_OFFLINE"] = "true"
    cmd = ["cargo", "kani", "-Z", "stubbing", "-Z", "concrete-playback", "--concrete-playback=print", "--target-dir", tdir, "--harness", harness]
    try:
        p = subprocess.run(cmd, cwd=src, env=env, stdout=subprocess.PIPE, stderr=subprocess.STDOUT, text=True, timeout=timeout_s)
    except subprocess.TimeoutExpired:
        return False, "playback generation timed out"
    m = re.search(r"```\n(.*?)```", p.stdout, re.S)
    if not m:
        return False, "no concrete playback test produced:\n" + p.stdout[-1500:]
    return True, m.group(1)


def write_evidence(pid, tier, t0, results, functions, bounds, assumptions, extra=None, violations=0, known=None, level="model_checking"):
    ok = [r for r in results if r.verdict == "SUCCESSFUL"]
    cov = {
        "evaluations": len(results),
        "distinct_nontrivial": len({(r.crate, r.name) for r in results if r.covers[1] == 0 or r.covers[0] > 0}),
        "rule": "one evaluation = one Kani proof harness (CBMC + CaDiCaL decide the harness assertions for ALL values of every kani::any() input "
                "within the stated unwind bounds, with unwinding assertions on); distinct = distinct harnesses; non-trivial = its kani::cover! "
                "reachability witnesses are satisfied (vacuity guard)",
        "samples": [r.as_sample() for r in results],
        "obligations": len(results),
        "discharged": len(ok),
        "solver_time_s": round(sum(r.secs for r in results), 1),
        "functions_encoded": functions,
        "bounds": bounds,
        "states": max(1, len(results)),
        "transitions": max(1, sum(r.covers[1] for r in results)),
        "traces_validated_against_impl": 0,
        "exhaustive": False,
    }
    if extra:
        cov.update(extra)
    if known:
        cov["known_findings_reported"] = known
    if level == "other":
        cov["explanation"] = ("mixed: one clause decided by bounded model checking of the real code, one clause by solver-generated "
                              "counterexample candidates executed against the real code (see bounds)")
    ev = {"property_id": pid, "tier": tier, "seed": env_seed(), "level": level, "coverage": cov,
          "assumptions": assumptions, "wall_s": round(time.time() - t0, 1), "violations": violations}
    os.makedirs(os.path.join(VERIF, "evidence"), exist_ok=True)
    json.dump(ev, open(os.path.join(VERIF, "evidence", f"{pid}.json"), "w"), indent=1)
    return ev


def native_replay(crate, harness, timeout_s=1200):
    """Replay a failing harness against the real code natively: Kani's concrete playback writes a
    unit test carrying the counterexample bytes into a scratch copy of the harness crate, and
    `cargo kani playback` compiles and runs it with the ordinary Rust toolchain semantics (no CBMC).
    Returns (reproduced, path_to_replay_file, detail)."""
    scratch = os.path.join(WORK, "playback")
    dst = os.path.join(scratch, crate)
    shutil.rmtree(dst, ignore_errors=True)
    os.makedirs(scratch, exist_ok=True)
    shutil.copytree(os.path.join(KH, crate), dst)
    shutil.rmtree(os.path.join(scratch, "shims"), ignore_errors=True)
    shutil.copytree(os.path.join(KH, "shims"), os.path.join(scratch, "shims"))
    env = dict(os.environ)
    env["CARGO_NET_OFFLINE"] = "true"
    tdir = os.path.join(WORK, "kani-target", f"{crate}-playback")
    gen = subprocess.run(["cargo", "kani", "-Z", "stubbing", "-Z", "concrete-playback", "--concrete-playback=inplace",
                          "--target-dir", tdir, "--harness", harness], cwd=dst, env=env, stdout=subprocess.PIPE,
                         stderr=subprocess.STDOUT, text=True, timeout=timeout_s)
    src = open(os.path.join(dst, "src", "lib.rs")).read()
    m = re.search(r"fn (kani_concrete_playback_\w+)", src)
    rdir = os.path.join(VERIF, "evidence", "replays")
    os.makedirs(rdir, exist_ok=True)
    rpath = os.path.join(rdir, f"kani.{crate}.{harness}.txt")
    if not m:
        open(rpath, "w").write("no concrete playback test was generated\n" + gen.stdout[-3000:])
        return False, rpath, "no concrete playback test generated"
    test = m.group(1)
    body = src[src.index("#[test]", max(0, src.index(test) - 200)):][:6000]
    run = subprocess.run(["cargo", "kani", "playback", "-Z", "concrete-playback", "--", test], cwd=dst, env=env,
                         stdout=subprocess.PIPE, stderr=subprocess.STDOUT, text=True, timeout=timeout_s)
    failed = "test result: FAILED" in run.stdout or "panicked at" in run.stdout
    open(rpath, "w").write(f"# concrete playback of {crate}::{harness} against the real code (native run)\n{body}\n\n# native run output\n{run.stdout[-4000:]}")
    return failed, rpath, ("native run panics: " + "; ".join(re.findall(r"panicked at [^\n]*\n[^\n]*", run.stdout)[:2])) if failed else "native run of the counterexample does not fail"
