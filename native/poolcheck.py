"""C19 / C22: one-step solver check of ProofPool::push from its MIR (native/mirpool.py), plus replay of
solver counterexamples against the REAL pool (csx-emit poolrun) judged by a small executable spec."""
import json
import os
import subprocess
import time

import z3

import mirpool
import mirsmt
from mirpool import Key, Null

VERIF = os.path.dirname(os.path.dirname(os.path.abspath(__file__)))
WORK = os.path.join(VERIF, "work")
UNIT_MS = 400          # one model time unit in the replay
MARGIN_MS = 150


class Q:
    def __init__(self, name, verdict, secs, model=None, path=None, kind="holds"):
        self.name, self.verdict, self.secs, self.model, self.path, self.kind = name, verdict, secs, model, path, kind
        self.cex = []


def load(K=2):
    mir = mirsmt.dump_mir("/repo/wormhole/aggregator", os.path.join(WORK, "mir-target"))
    src = open("/repo/wormhole/aggregator/src/pool.rs").read()
    ex = mirpool.PoolExec(mir, src, K=K)
    ex.run_push()
    return ex


class Ctx:
    """names for the pieces of the symbolic pre-state / inputs / spec"""

    def __init__(self, ex):
        self.ex = ex
        I = ex.inputs
        self.maxp, self.maxb, self.maxv, self.W = I["lim_max_proofs"], I["lim_max_buckets"], I["lim_max_verifies_per_window"], I["lim_verify_window"]
        self.ws, self.vc = I["pre_verify_window_started"], I["pre_verifies_in_window"]
        self.pre = ex.pre
        self.meta_ok, self.key, self.L = I["meta_ok"], I["key"], I["nulls_len"]
        self.nulls = [I[f"null_{i}"] for i in range(ex.K)]
        self.dummy = z3.Function("dummy", Key, z3.BoolSort())(self.key)
        self.t_star = z3.Int("t_star")
        self.vok_star = z3.Bool("vok_star")
        # limits as ProofPool::new admits them; pre-state within the limits (C20's counting invariants, assumed here)
        self.assume = [self.maxv >= 1, self.maxb >= 1, self.maxp >= 1, self.W >= 1, self.vc <= self.maxv, self.t_star >= self.ws,
                       self.pre["total"] <= self.maxp, self.pre["nb"] <= self.maxb]
        self.c1 = self.pre["total"] < self.maxp
        self.c2 = self.meta_ok
        self.c3 = z3.Not(self.dummy)
        # the window restarts once a full window has elapsed: at elapsed > W it must, below W it must not; exactly at
        # elapsed == W either decision satisfies the property (a window of length W either contains that instant or not)
        self.elapsed = lambda t: z3.If(t >= self.ws, t - self.ws, 0)
        self.reset_star = z3.Bool("reset_star")
        self.star_rule = z3.And(z3.Implies(self.elapsed(self.t_star) > self.W, self.reset_star), z3.Implies(self.reset_star, self.elapsed(self.t_star) >= self.W))
        self.vc_mid = lambda t: z3.If(self.reset_star, 0, self.vc)
        self.c4 = lambda t: self.vc_mid(t) < self.maxv
        self.c6 = z3.Or(z3.Select(self.pre["has"], self.key), self.pre["nb"] < self.maxb)
        self.c7 = z3.And([z3.Implies(self.L > i, z3.Not(z3.Select(self.pre["ni"], n))) for i, n in enumerate(self.nulls)])
        self.reach_verify = lambda t: z3.And(self.c1, self.c2, self.c3, self.c4(t))
        self.accept = lambda t, vok: z3.And(self.reach_verify(t), vok, self.c6, self.c7)

    def path_facts(self, S):
        """equalities tying the spec's would-be clock value / verification result to what the path drew"""
        f = []
        nows = [e[1] for e in S.events if e[0] == "now"]
        ver = [e[1] for e in S.events if e[0] == "verify"]
        if nows:
            f.append(self.t_star == nows[0])
            f.append(self.reset_star == z3.BoolVal(self.wrote_ws(S)))     # the path's own restart decision
        else:
            f.append(self.star_rule)
        if ver:
            f.append(self.vok_star == ver[0])
        return f, nows, ver

    def wrote_ws(self, S):
        i = self.ex.field_index("verify_window_started")
        return any(e[0] == "write" and e[1] and e[1][-1] == ("f", i) for e in S.events)

    def post(self, S, name):
        """post value of a pool scalar field by name"""
        idx = self.ex.field_index(name)
        v = S.heap.fields[idx]
        if not hasattr(v, "v"):
            raise mirpool.Unsupported(f"pool field {name} was assigned a value the executor does not model ({getattr(v, 'why', v.kind)})")
        return v.v


def solve(ctx, conds, timeout_s=60):
    s = z3.Solver()
    s.set("timeout", int(timeout_s * 1000))
    s.add(ctx.ex.dom)
    s.add(ctx.assume)
    s.add(conds)
    t0 = time.time()
    r = s.check()
    return r, (s.model() if r == z3.sat else None), time.time() - t0


def is_ok(ret):
    return ret.disc == 0


def obligations(ex, which):
    """-> list of Q. Every obligation is a validity query over ONE path of push's MIR (all paths are covered)."""
    ctx = Ctx(ex)
    out = []
    paths = ex.paths
    bad_outcomes = [(S, o) for (S, o, r) in paths if o != "return"]

    def per_path(name, goal_fn, extra=()):
        secs, verdict, cex = 0.0, "HOLDS", []
        for (S, outcome, ret) in paths:
            if outcome != "return":
                continue
            facts, nows, ver = ctx.path_facts(S)
            g = goal_fn(S, ret, nows, ver)
            if g is None:
                continue
            r, m, dt = solve(ctx, S.pc + facts + list(extra) + [z3.Not(g)])
            secs += dt
            if r == z3.sat:
                verdict = "CEX"
                cex.append((S, g, m))
            elif r != z3.unsat and verdict != "CEX":
                verdict = "UNKNOWN"
        q = Q(name, verdict, secs, cex[0][2] if cex else None, cex[0][0] if cex else None)
        q.cex = cex
        out.append(q)

    out.append(Q(f"push: every one of the {len(paths)} MIR paths returns (no reachable panic, arithmetic overflow or unreachable block)",
                 "HOLDS" if not bad_outcomes else "CEX", 0.0, None, bad_outcomes[0][0] if bad_outcomes else None))
    out[-1].note = bad_outcomes[0][1] if bad_outcomes else ""

    def unchanged(S):
        return z3.And(S.st["has"] == ctx.pre["has"], S.st["cnt"] == ctx.pre["cnt"], S.st["nb"] == ctx.pre["nb"], S.st["total"] == ctx.pre["total"],
                      S.st["ni"] == ctx.pre["ni"], S.st["nik"] == ctx.pre["nik"])

    if which == "C19":
        per_path("admission: push returns Ok exactly when pool not full, metadata parses, block hash non-zero, budget remains, the proof verifies, "
                 "(bucket exists or bucket limit not reached) and no nullifier of the proof is pooled",
                 lambda S, ret, nows, ver: is_ok(ret) == ctx.accept(ctx.t_star, ctx.vok_star))
        per_path("a rejected push leaves buckets, per-bucket counts, bucket count, proof count and the nullifier index unchanged",
                 lambda S, ret, nows, ver: z3.Implies(z3.Not(is_ok(ret)), unchanged(S)))

        def order(S, ret, nows, ver):
            reads = [i for i, e in enumerate(S.events) if e[0] == "read" and e[1] in ("has", "nb", "ni")]
            if not reads:
                return None
            vi = [i for i, e in enumerate(S.events) if e[0] == "verify"]
            if not vi or vi[0] > reads[0]:
                return z3.BoolVal(False)
            return ver[0]
        per_path("the bucket-limit and duplicate-nullifier tests (any read of the bucket map or nullifier index) happen only after a successful verification",
                 order)

        def in_order(S, ret, nows, ver):
            has_ev = lambda kind, what=None: z3.BoolVal(any(e[0] == kind and (what is None or e[1] == what) for e in S.events))
            return z3.And(has_ev("call", "parse_metadata") == ctx.c1,
                          has_ev("call", "is_dummy") == z3.And(ctx.c1, ctx.c2),
                          has_ev("verify") == ctx.reach_verify(ctx.t_star))
        per_path("the rules are evaluated in the documented order: metadata is parsed iff the pool is not full, the dummy test runs iff metadata parsed, "
                 "the verifier iff the key is not the dummy sentinel and budget remains (so a push is rejected by the FIRST rule it fails; reading the clock is not a rule)", in_order)

        def admitted(S, ret, nows, ver):
            ni, nik = ctx.pre["ni"], ctx.pre["nik"]
            for i, n in enumerate(ctx.nulls):
                ni = z3.If(ctx.L > i, z3.Store(ni, n, True), ni)
                nik = z3.If(ctx.L > i, z3.Store(nik, n, ctx.key), nik)
            had = z3.Select(ctx.pre["has"], ctx.key)
            cnt0 = z3.If(had, z3.Select(ctx.pre["cnt"], ctx.key), 0)
            return z3.Implies(is_ok(ret), z3.And(S.st["ni"] == ni, S.st["nik"] == nik, S.st["has"] == z3.Store(ctx.pre["has"], ctx.key, True),
                                                 S.st["cnt"] == z3.Store(ctx.pre["cnt"], ctx.key, cnt0 + 1), S.st["total"] == ctx.pre["total"] + 1,
                                                 S.st["nb"] == z3.If(had, ctx.pre["nb"], ctx.pre["nb"] + 1)))
        per_path("an admitted push indexes exactly the proof's nullifiers under its key and appends exactly one proof to the key's bucket", admitted)
        s_ok = [p for p in paths if p[1] == "return"]
        r, m, dt = solve(ctx, [z3.Or([z3.And(S.pc + [is_ok(ret)]) for (S, o, ret) in s_ok])])
        out.append(Q("vacuity: some path admits a proof", "REACHABLE" if r == z3.sat else "VACUOUS", dt, kind="sat"))

    if which == "C22":
        def budget_state(S, ret, nows, ver):
            ws2, vc2 = ctx.post(S, "verify_window_started"), ctx.post(S, "verifies_in_window")
            if not nows:
                return z3.And(ws2 == ctx.ws, vc2 == ctx.vc, z3.BoolVal(not ver))
            t = nows[0]
            wrote = ctx.wrote_ws(S)
            el = ctx.elapsed(t)
            return z3.And(el >= ctx.W if wrote else el <= ctx.W, ws2 == (t if wrote else ctx.ws), vc2 == (0 if wrote else ctx.vc) + (1 if ver else 0))
        per_path("window bookkeeping: the window restarts (start := now, counter := 0) only when now - start >= window and always when now - start > window; the counter grows by one per "
                 "verification attempt whatever its result; pushes rejected before the budget stage touch neither", budget_state)
        per_path("a verification is attempted exactly when the pool is not full, metadata parses, the block hash is non-zero and the (possibly restarted) "
                 "counter is below the limit; an exhausted budget rejects without verifying",
                 lambda S, ret, nows, ver: z3.BoolVal(bool(ver)) == ctx.reach_verify(ctx.t_star))
        per_path("at most one verification per push, charged to the counter before the verifier runs",
                 lambda S, ret, nows, ver: z3.BoolVal(len(ver) <= 1 and (not ver or any(e[0] == "write" and e[1][-1] == ("f", ex.field_index("verifies_in_window"))
                                                                                        for e in S.events[:[i for i, e in enumerate(S.events) if e[0] == "verify"][0]]))))
        per_path("induction step: counter <= limit is preserved, and 'verifications since the window start' == counter is preserved (ghost G)",
                 lambda S, ret, nows, ver: z3.And(ctx.post(S, "verifies_in_window") <= ctx.maxv,
                                                  ctx.post(S, "verifies_in_window") == ((0 if ctx.wrote_ws(S) else ctx.vc) if nows else ctx.vc) + (1 if ver else 0)))
        r, m, dt = solve(ctx, [z3.Or([z3.And(S.pc) for (S, o, ret) in paths if any(e[0] == "verify" for e in S.events)])])
        out.append(Q("vacuity: some path reaches the verifier", "REACHABLE" if r == z3.sat else "VACUOUS", dt, kind="sat"))
        r, m, dt = solve(ctx, [z3.Or([z3.And(S.pc + [ctx.vc_mid(ctx.t_star) >= ctx.maxv] + ctx.path_facts(S)[0]) for (S, o, ret) in paths if any(e[0] == "now" for e in S.events)])])
        out.append(Q("vacuity: some path is rejected for an exhausted budget", "REACHABLE" if r == z3.sat else "VACUOUS", dt, kind="sat"))
    return ctx, out


# ----------------------------------------------------------------------------- replay
def small_model(ctx, S, negated_goal_conds):
    """a small, reachable instance of the counterexample (bounded values + representation invariants), for the replay"""
    facts, nows, ver = ctx.path_facts(S) if S is not None else ([], [], [])
    pre = ctx.pre
    had = z3.Select(pre["has"], ctx.key)
    ck = z3.Select(pre["cnt"], ctx.key)
    others_b = pre["nb"] - z3.If(had, 1, 0)
    others_p = pre["total"] - z3.If(had, ck, 0)
    real = [ctx.maxp <= 3, ctx.maxb <= 2, ctx.maxv <= 3, ctx.W == 2, ctx.L >= 1, pre["total"] <= 3, pre["nb"] <= 2,
            z3.Implies(had, ck >= 1), z3.Implies(z3.Not(had), ck == 0), ck <= 3, others_b >= 0, others_p >= others_b, z3.Implies(others_b == 0, others_p == 0),
            z3.Or(ctx.t_star == ctx.ws, ctx.t_star == ctx.ws + 1, ctx.t_star == ctx.ws + 3), ctx.ws == 10,
            z3.Implies(z3.And(ctx.vc == 0, ctx.t_star < ctx.ws + 3), pre["total"] == 0)]
    for i, n in enumerate(ctx.nulls):
        pooled = z3.Select(pre["ni"], n)
        inkey = z3.Select(pre["nik"], n) == ctx.key
        real.append(z3.Implies(z3.And(ctx.L > i, pooled), z3.If(inkey, had, others_b >= 1)))
    r, m, dt = solve(ctx, (S.pc if S is not None else []) + facts + real + negated_goal_conds, timeout_s=60)
    return m


def scenario_from_model(ctx, m):
    ev = lambda e: m.eval(e, model_completion=True)
    iv = lambda e: ev(e).as_long()
    bv = lambda e: z3.is_true(ev(e))
    pre = ctx.pre
    L = iv(ctx.L)
    had = bv(z3.Select(pre["has"], ctx.key))
    ck = iv(z3.Select(pre["cnt"], ctx.key)) if had else 0
    nb, total = iv(pre["nb"]), iv(pre["total"])
    maxv = iv(ctx.maxv)
    lim = {"max_proofs": iv(ctx.maxp), "max_buckets": iv(ctx.maxb), "max_verifies": maxv, "window_ms": 2 * UNIT_MS}
    el = iv(ctx.t_star) - iv(ctx.ws)
    full = 2 * UNIT_MS + MARGIN_MS
    vc = iv(ctx.vc)
    # nullifier ids of the final proof
    ids, nid = [], 100
    for i in range(L):
        same = [j for j in range(i) if bv(ctx.nulls[j] == ctx.nulls[i])]
        ids.append(ids[same[0]] if same else nid + i)
    fresh = iter(range(200, 400))

    def mk(key, holds=()):
        ns = list(holds) + [next(fresh) for _ in range(L - len(holds))]
        return {"op": "push", "kind": "valid", "key": key, "nulls": ns[:L]}
    setup = []
    pooled_key = [ids[i] for i in range(L) if bv(z3.Select(pre["ni"], ctx.nulls[i])) and bv(z3.Select(pre["nik"], ctx.nulls[i]) == ctx.key)]
    pooled_other = [ids[i] for i in range(L) if bv(z3.Select(pre["ni"], ctx.nulls[i])) and not bv(z3.Select(pre["nik"], ctx.nulls[i]) == ctx.key)]
    pooled_key, pooled_other = sorted(set(pooled_key)), sorted(set(pooled_other))
    for j in range(ck):
        setup.append(mk(0, pooled_key if j == 0 else ()))
    ob, op_ = nb - (1 if had else 0), total - ck
    for b in range(ob):
        cnt_b = 1 if b < ob - 1 else op_ - (ob - 1)
        for j in range(cnt_b):
            setup.append(mk(1 + b, pooled_other if (b == 0 and j == 0) else ()))
    ops = []
    for i, p in enumerate(setup):
        if i and i % maxv == 0:
            ops.append({"op": "sleep", "ms": full})
        ops.append(p)
    if vc > 0:
        if setup:
            ops.append({"op": "sleep", "ms": full})
        for _ in range(vc):
            ops.append({"op": "push", "kind": "invalid", "key": 7, "nulls": [next(fresh) for _ in range(L)]})
    if el > 0:
        ops.append({"op": "sleep", "ms": el * UNIT_MS + MARGIN_MS})
    kind = "malformed" if not bv(ctx.meta_ok) else ("dummy" if bv(ctx.dummy) else ("invalid" if not bv(ctx.vok_star) else "valid"))
    ops.append({"op": "push", "kind": kind, "key": 0, "nulls": ids})
    return {"n": L, "batch_size": 1, "limits": lim, "ops": ops}


def spec_run(sc, steps):
    """executable spec of the pool (properties C19/C22) over the scenario, using the real run's timestamps for the clock.
    Returns list of expected observations or None if a clock decision is ambiguous."""
    lim = sc["limits"]
    W = lim["window_ms"]
    buckets, index = {}, set()
    ws_lo = ws_hi = 0.0
    vc = 0
    exp = []
    for op, st in zip(sc["ops"], steps):
        if op["op"] != "push":
            exp.append(None)
            continue
        lo, hi = st["before_ms"], st["after_ms"]
        total = sum(len(v) for v in buckets.values())
        n = sc["n"]
        res = None
        if total >= lim["max_proofs"]:
            res = "full"
        elif op["kind"] == "malformed":
            res = "malformed"
        elif op["kind"] == "dummy":
            res = "dummy"
        else:
            r_lo, r_hi = (lo - ws_hi) >= W, (hi - ws_lo) >= W
            if r_lo != r_hi:
                return None
            if r_lo:
                ws_lo, ws_hi, vc = lo, hi, 0
            if vc >= lim["max_verifies"]:
                res = "budget"
            else:
                vc += 1
                nulls = op["nulls"][:n]
                if op["kind"] == "invalid":
                    res = "verify"
                elif op["key"] not in buckets and len(buckets) >= lim["max_buckets"]:
                    res = "bucket-limit"
                elif any(x in index for x in nulls):
                    res = "duplicate"
                else:
                    res = "ok"
                    buckets.setdefault(op["key"], []).append(nulls)
                    index.update(nulls)
        exp.append({"ok": res == "ok", "why": res, "len": sum(len(v) for v in buckets.values()), "num_buckets": len(buckets),
                    "index_len": len(index), "budget_count": vc, "buckets": {str(k): len(v) for k, v in buckets.items()}})
    return exp


ERR_CLASS = [("pool is full", "full"), ("length mismatch", "malformed"), ("failed to parse", "malformed"), ("all-dummy", "dummy"),
             ("budget exhausted", "budget"), ("verification failed", "verify"), ("bucket limit", "bucket-limit"), ("already staged", "duplicate")]


def replay(pid, tag, sc, emit_bin):
    d = os.path.join(VERIF, "evidence", "replays")
    os.makedirs(d, exist_ok=True)
    spath = os.path.join(d, f"{pid}.{tag}.scenario.json")
    opath = os.path.join(d, f"{pid}.{tag}.json")
    json.dump(sc, open(spath, "w"))
    tmp = opath + ".run"
    p = subprocess.run([emit_bin, "poolrun", spath, tmp], capture_output=True, text=True, timeout=300)
    if p.returncode != 0 or not os.path.exists(tmp):
        json.dump({"scenario": sc, "error": p.stderr[-2000:]}, open(opath, "w"))
        return False, opath, "pool driver failed"
    run = json.load(open(tmp))
    os.remove(tmp)
    if "new_error" in run:
        json.dump({"scenario": sc, "real": run}, open(opath, "w"))
        return False, opath, "ProofPool::new rejects the limits: " + run["new_error"]
    exp = spec_run(sc, run["steps"])
    diffs = []
    if exp is None:
        json.dump({"scenario": sc, "real": run, "note": "clock decision ambiguous"}, open(opath, "w"))
        return False, opath, "clock decision ambiguous in the real run"
    for i, (op, st, e) in enumerate(zip(sc["ops"], run["steps"], exp)):
        if e is None:
            continue
        real_b = {str(b["key"]): b["len"] for b in st["buckets"]}
        cls = "ok" if st["ok"] else next((c for s_, c in ERR_CLASS if s_ in st["err"]), "other: " + st["err"][:60])
        for k in ("ok", "len", "num_buckets", "index_len", "budget_count"):
            if st[k] != e[k]:
                diffs.append(f"step {i} ({op['kind']} key {op['key']} nulls {op['nulls']}): {k} = {st[k]}, the property requires {e[k]}")
        if real_b != e["buckets"]:
            diffs.append(f"step {i}: bucket sizes {real_b}, the property requires {e['buckets']}")
        if cls != e["why"]:
            diffs.append(f"step {i}: real pool answered '{cls}', the documented order of checks gives '{e['why']}'")
    json.dump({"scenario": sc, "real": run, "expected": exp, "differences": diffs}, open(opath, "w"), indent=1)
    return bool(diffs), opath, ("; ".join(diffs[:3]) if diffs else "the real pool behaves as the property requires on the replayed scenario")


BATTERY = [
    {"n": 2, "batch_size": 1, "limits": {"max_proofs": 3, "max_buckets": 1, "max_verifies": 3, "window_ms": 600},
     "ops": [{"op": "push", "kind": "valid", "key": 0, "nulls": [1, 2]}, {"op": "push", "kind": "invalid", "key": 0, "nulls": [3, 4]},
             {"op": "push", "kind": "valid", "key": 1, "nulls": [5, 6]}, {"op": "push", "kind": "valid", "key": 0, "nulls": [7, 8]},
             {"op": "sleep", "ms": 750}, {"op": "push", "kind": "valid", "key": 0, "nulls": [1, 9]},
             {"op": "push", "kind": "malformed", "key": 0, "nulls": [10, 11]}, {"op": "push", "kind": "dummy", "key": 0, "nulls": [12, 13]},
             {"op": "push", "kind": "valid", "key": 0, "nulls": [14, 15]}]},
    {"n": 1, "batch_size": 1, "limits": {"max_proofs": 2, "max_buckets": 2, "max_verifies": 2, "window_ms": 600},
     "ops": [{"op": "push", "kind": "valid", "key": 0, "nulls": [1]}, {"op": "push", "kind": "valid", "key": 1, "nulls": [2]},
             {"op": "push", "kind": "valid", "key": 1, "nulls": [3]}, {"op": "sleep", "ms": 750},
             {"op": "push", "kind": "valid", "key": 2, "nulls": [4]}]},
]


def validate_translation(ex, ctx, emit_bin, pid):
    """translator validation: concrete histories are run through the REAL pool; every real push step must be explained by
    one path of the MIR summary evaluated on that step's concrete pre-state and inputs (same result, same budget fields).
    Returns (steps validated, failures)."""
    ok, fails = 0, []
    d = os.path.join(WORK, "poolval")
    os.makedirs(d, exist_ok=True)
    for bi, sc in enumerate(BATTERY):
        if sc["n"] > ex.K:
            continue
        sp, op_ = os.path.join(d, f"{pid}.s{bi}.json"), os.path.join(d, f"{pid}.o{bi}.json")
        json.dump(sc, open(sp, "w"))
        p = subprocess.run([emit_bin, "poolrun", sp, op_], capture_output=True, text=True, timeout=300)
        if p.returncode != 0:
            fails.append(f"battery {bi}: pool driver failed")
            continue
        run = json.load(open(op_))
        lim = sc["limits"]
        buckets, index, vc_prev = {}, {}, 0
        for i, (op, st) in enumerate(zip(sc["ops"], run["steps"])):
            if op["op"] != "push":
                continue
            n = sc["n"]
            nulls = op["nulls"][:n]
            total = sum(len(v) for v in buckets.values())
            # the budget fields are taken from the real run (hook view) - the clock is the environment
            reset = st["window_started_ms"] >= st["before_ms"] - 1e-6
            conc = [ctx.maxp == lim["max_proofs"], ctx.maxb == lim["max_buckets"], ctx.maxv == lim["max_verifies"], ctx.W == 1000,
                    ctx.pre["total"] == total, ctx.pre["nb"] == len(buckets), z3.Select(ctx.pre["has"], ctx.key) == (op["key"] in buckets),
                    ctx.vc == vc_prev, ctx.ws == 0, ctx.t_star == (2000 if reset else 0), ctx.reset_star == reset, ctx.L == n,
                    ctx.meta_ok == (op["kind"] != "malformed"), ctx.dummy == (op["kind"] == "dummy"), ctx.vok_star == (op["kind"] != "invalid")]
            conc += [z3.Select(ctx.pre["ni"], ctx.nulls[j]) == (nulls[j] in index) for j in range(n)]
            conc += [ctx.nulls[a] != ctx.nulls[b] for a in range(n) for b in range(a) if nulls[a] != nulls[b]]
            alts = []
            for (S, outcome, ret) in ex.paths:
                if outcome != "return":
                    continue
                facts, nows, ver = ctx.path_facts(S)
                alts.append(z3.And(S.pc + facts + [is_ok(ret) == st["ok"], ctx.post(S, "verifies_in_window") == st["budget_count"],
                                                   S.st["total"] == st["len"], S.st["nb"] == st["num_buckets"]]))
            r, m, dt = solve(ctx, conc + [z3.Or(alts)])
            if r == z3.sat:
                ok += 1
            else:
                fails.append(f"battery {bi} step {i} ({op['kind']}): no MIR path reproduces the real result {st['ok']}/{st['budget_count']}/{st['len']} ({r})")
            if st["ok"]:
                buckets.setdefault(op["key"], []).append(nulls)
                for x in nulls:
                    index[x] = op["key"]
            vc_prev = st["budget_count"]
    return ok, fails
