"""C16: padding templates are accepted only with the complete dummy sentinel - solver check over the MIR of the two
validators and of the six functions that accept a template (native/mirtpl.py), replay through the real public
constructors (csx-emit tplrun)."""
import json
import os
import subprocess
import time

import z3

import mirpool
import mirsmt
import mirtpl
from mirtpl import ZERO

VERIF = os.path.dirname(os.path.dirname(os.path.abspath(__file__)))
WORK = os.path.join(VERIF, "work")

CALLERS = [
    ("PublicBatchAggregator::with_limits (aggregator init)", r"aggregator\.rs.*::with_limits$", "verify_dummy_private_batch_template"),
    ("load_validated_dummy_leaf_template (private-batch build step)", r"load_validated_dummy_leaf_template$", "verify_dummy_leaf_template"),
    ("PrivateBatchProver::new", r"private_batch/prover/lib\.rs.*>::new$", "verify_dummy_leaf_template"),
    ("PrivateBatchProver::new_from_bytes", r"private_batch/prover/lib\.rs.*>::new_from_bytes$", "verify_dummy_leaf_template"),
    ("PublicBatchProver::new", r"public_batch/prover/lib\.rs.*>::new$", "verify_dummy_private_batch_template"),
    ("PublicBatchProver::new_from_bytes", r"public_batch/prover/lib\.rs.*>::new_from_bytes$", "verify_dummy_private_batch_template"),
]


class Q:
    def __init__(self, name, verdict, secs, kind="holds"):
        self.name, self.verdict, self.secs, self.kind = name, verdict, secs, kind
        self.cex = []
        self.model = None


def solve(dom, conds, timeout_s=60):
    s = z3.Solver()
    s.set("timeout", int(timeout_s * 1000))
    s.add(dom)
    s.add(conds)
    t0 = time.time()
    r = s.check()
    return r, (s.model() if r == z3.sat else None), time.time() - t0


def is_ok(ret):
    return ret.disc == 0


def run(K):
    mir = mirsmt.dump_mir("/repo/wormhole/aggregator", os.path.join(WORK, "mir-target"))
    src = open("/repo/wormhole/inputs/src/lib.rs").read()
    out = []
    info = {}
    vok = z3.Bool("vok_star")

    def validator(fn, label, spec_fn, K_):
        ex = mirtpl.TplExec(mir, src, K=K_)
        paths = ex.run_validator(fn)
        info[fn] = {"paths": len(paths), "unmodelled_effect_free_calls": sorted(ex.unknown_calls)}
        bad = [o for (_, o, _) in paths if o != "return"]
        out.append(Q(f"{fn}: every one of the {len(paths)} MIR paths returns (no reachable panic)", "HOLDS" if not bad else "CEX", 0.0))
        secs, verdict, cex = 0.0, "HOLDS", []
        F = ex.fields
        for (S, outcome, ret) in paths:
            if outcome != "return":
                continue
            ver = [e[1] for e in S.events if e[0] == "verify"]
            facts = [vok == ver[0]] if ver else []
            parse_ok = ex.inputs.get("parse_ok", z3.BoolVal(False))
            goal = is_ok(ret) == z3.And(parse_ok, spec_fn(F), vok)
            r, m, dt = solve(ex.dom, S.pc + facts + [z3.Not(goal)])
            secs += dt
            if r == z3.sat:
                verdict = "CEX"
                cex.append((ex, S, m))
            elif r != z3.unsat and verdict != "CEX":
                verdict = "UNKNOWN"
        q = Q(label, verdict, secs)
        q.cex = cex
        q.validator = fn
        out.append(q)
        # the verifier is consulted exactly when the sentinel is complete (so 'verify under the pinned verifier' is not skipped)
        secs, verdict = 0.0, "HOLDS"
        for (S, outcome, ret) in paths:
            if outcome != "return":
                continue
            ver = [e for e in S.events if e[0] == "verify"]
            parse_ok = ex.inputs.get("parse_ok", z3.BoolVal(False))
            r, m, dt = solve(ex.dom, S.pc + [z3.BoolVal(bool(ver)) != z3.And(parse_ok, spec_fn(F))])
            secs += dt
            if r == z3.sat:
                verdict = "CEX"
            elif r != z3.unsat and verdict != "CEX":
                verdict = "UNKNOWN"
        out.append(Q(f"{fn}: cryptographic verification runs exactly when parsing succeeded and the sentinel is complete, and at most once", verdict, secs))
        r, m, dt = solve(ex.dom, [z3.Or([z3.And(S.pc + [is_ok(ret)]) for (S, o, ret) in paths if o == "return"])])
        out.append(Q(f"vacuity: {fn} accepts some template", "REACHABLE" if r == z3.sat else "VACUOUS", dt, kind="sat"))

    validator("verify_dummy_leaf_template",
              "leaf template accepted exactly when it parses, block hash = 0, both outputs = 0, asset id = 0, both exit accounts = 0, and it verifies",
              lambda F: z3.And(F["pis.block_hash"] == ZERO, F["pis.output_amount_1"] == 0, F["pis.output_amount_2"] == 0, F["pis.asset_id"] == 0,
                               F["pis.exit_account_1"] == ZERO, F["pis.exit_account_2"] == ZERO), 0)
    validator("verify_dummy_private_batch_template",
              f"private-batch template accepted exactly when it parses, block hash = 0, every exit slot has amount 0 and account 0 (slot lists of length <= {K}), and it verifies",
              lambda F: z3.And([F["pis.block_data.block_hash"] == ZERO] +
                               [z3.Implies(F["pis.account_data.len"] > j, z3.And(F[f"pis.account_data[{j}].summed_output_amount"] == 0, F[f"pis.account_data[{j}].exit_account"] == ZERO))
                                for j in range(K)]), K)
    for label, pat, which in CALLERS:
        ex = mirtpl.TplExec(mir, src, K=1)
        name, paths = ex.run_caller(pat)
        secs, verdict, cex = 0.0, "HOLDS", []
        n_ok = 0
        for (S, outcome, ret) in paths:
            if outcome != "return" or ret is None:
                continue
            val = [e for e in S.events if e[0] == "validate" and e[1] == which]
            may_ok = is_ok(ret) if ret.kind == "enum" else z3.BoolVal(True)
            goal = z3.And(z3.BoolVal(bool(val)), val[0][2] if val else z3.BoolVal(False))
            r, m, dt = solve(ex.dom, S.pc + [may_ok, z3.Not(goal)])
            secs += dt
            if r == z3.sat:
                verdict = "CEX"
                cex.append((ex, S, m))
            elif r != z3.unsat and verdict != "CEX":
                verdict = "UNKNOWN"
            r2, _, _ = solve(ex.dom, S.pc + [may_ok])
            n_ok += r2 == z3.sat
        if n_ok == 0 and verdict == "HOLDS":
            verdict = "VACUOUS"
        q = Q(f"{label}: no path returns Ok unless {which} was called and returned Ok ({len(paths)} over-approximated MIR paths)", verdict, secs)
        q.cex = cex
        q.caller = label
        q.which = which
        out.append(q)
        info[label] = {"paths": len(paths)}
    return out, info


# ----------------------------------------------------------------------------- replay
def leaf_scenario(ex, m):
    ev = lambda e: m.eval(e, model_completion=True)
    F = ex.fields
    z = lambda name: 0 if z3.is_true(ev(F[name] == ZERO)) else 1
    pis = [0] * 21
    pis[0] = ev(F["pis.asset_id"]).as_long()
    pis[1] = ev(F["pis.output_amount_1"]).as_long()
    pis[2] = ev(F["pis.output_amount_2"]).as_long()
    pis[8] = z("pis.exit_account_1")
    pis[12] = z("pis.exit_account_2")
    pis[16] = z("pis.block_hash")
    parse_ok = z3.is_true(ev(ex.inputs["parse_ok"]))
    if not parse_ok:
        pis[3] = 2 ** 40          # fee outside u32: the parser must refuse
    tamper = not z3.is_true(ev(z3.Bool("vok_star")))
    return {"kind": "leaf", "n": 1, "pis": pis, "tamper": tamper, "tamper_index": 4}


def priv_scenario(ex, m):
    ev = lambda e: m.eval(e, model_completion=True)
    F = ex.fields
    L = ev(F["pis.account_data.len"]).as_long()
    n = max(1, (L + 1) // 2)
    pis = [0] * (21 * n + 8)
    pis[0] = 2 * n
    pis[3] = 0 if z3.is_true(ev(F["pis.block_data.block_hash"] == ZERO)) else 1
    for j in range(min(L, ex.K)):
        pis[8 + 5 * j] = ev(F[f"pis.account_data[{j}].summed_output_amount"]).as_long()
        pis[8 + 5 * j + 1] = 0 if z3.is_true(ev(F[f"pis.account_data[{j}].exit_account"] == ZERO)) else 1
    if not z3.is_true(ev(ex.inputs["parse_ok"])):
        pis[1] = 2 ** 40
    tamper = not z3.is_true(ev(z3.Bool("vok_star")))
    return {"kind": "priv", "n": n, "pis": pis, "tamper": tamper, "tamper_index": 7}


def expected_ok(sc):
    p = sc["pis"]
    if sc["tamper"]:
        return False
    if sc["kind"] == "leaf":
        return all(v < 2 ** 32 for v in p[0:4]) and p[20] < 2 ** 32 and p[0] == 0 and p[1] == 0 and p[2] == 0 and not any(p[8:16]) and not any(p[16:20])
    n = sc["n"]
    if any(v >= 2 ** 32 for v in (p[0], p[1], p[2], p[7])) or p[0] != 2 * n:
        return False
    slots = p[8:8 + 10 * n]
    return not any(p[3:7]) and not any(slots)


def replay(pid, tag, sc, emit_bin):
    d = os.path.join(VERIF, "evidence", "replays")
    os.makedirs(d, exist_ok=True)
    sp = os.path.join(WORK, f"tpl-scenario-{os.getpid()}.json")
    json.dump(sc, open(sp, "w"))
    p = subprocess.run([emit_bin, "tplrun", sp, sp + ".out"], capture_output=True, text=True, timeout=600)
    opath = os.path.join(d, f"{pid}.{tag}.json")
    if p.returncode != 0 or not os.path.exists(sp + ".out"):
        json.dump({"scenario": sc, "error": p.stderr[-800:]}, open(opath, "w"))
        return False, opath, "driver failed"
    rep = json.load(open(sp + ".out"))
    os.remove(sp + ".out")
    os.remove(sp)
    want = expected_ok(sc)
    got = rep["result"] == "ok"
    json.dump({"scenario": sc, "real": rep, "the_property_requires": "accepted" if want else "rejected"}, open(opath, "w"), indent=1)
    ctor = "PrivateBatchProver::new" if sc["kind"] == "leaf" else "PublicBatchProver::new"
    if got != want:
        return True, opath, f"the real {ctor} {'accepts' if got else 'rejects'} a template that must be {'accepted' if want else 'rejected'}: {rep['result'][:120]}"
    return False, opath, f"the real {ctor} decides this template as the property requires"


BATTERY_LEAF = [([0] * 21, False), ([5] + [0] * 20, False), ([0, 1] + [0] * 19, False), ([0] * 16 + [1, 0, 0, 0, 0], False), ([0] * 9 + [1] + [0] * 11, False), ([0] * 21, True),
                ([0, 0, 0, 7, 9, 0, 0, 0] + [0] * 12 + [3], False)]


def validate_translation(emit_bin, pid):
    """the executable oracle used to judge replays (expected_ok) must agree with the REAL constructors on a fixed battery
    (this also confirms that the real constructors are reachable through the driver on this tree)"""
    ok, fails = 0, []
    scs = [{"kind": "leaf", "n": 1, "pis": p, "tamper": t, "tamper_index": 4} for p, t in BATTERY_LEAF]
    z = [0] * 29
    z[0] = 2
    for mod in ({}, {8: 4}, {14: 1}, {3: 1}):
        p = list(z)
        for k, v in mod.items():
            p[k] = v
        scs.append({"kind": "priv", "n": 1, "pis": p, "tamper": False, "tamper_index": 7})
    scs.append({"kind": "priv", "n": 1, "pis": list(z), "tamper": True, "tamper_index": 7})
    for i, sc in enumerate(scs):
        rep = replay(pid, f"battery{i}", sc, emit_bin)
        try:
            os.remove(rep[1])
        except OSError:
            pass
        if rep[0] or rep[2] == "driver failed":
            fails.append(f"battery {i} ({sc['kind']}): {rep[2]}")
        else:
            ok += 1
    return ok, fails
