"""C28, 'policy before any build': the three public circuit constructors, from the MIR of /repo's current source.

Over-approximating (havoc) path enumeration of each constructor's own MIR body (native/mirtpl.TplExec): every call is
opaque except
  validate_circuit_config(&config)   -> arbitrary Result, recorded with whether its argument is the constructor's
                                        own `config` parameter
  any other call that RECEIVES the config parameter (by value, by reference or a clone of it: CircuitBuilder::new,
  new_internal, new_profiled, ...)   -> a *sink*: the path ends there and is recorded.
Solver queries per constructor: no path reaches a sink, and no path that never reaches a sink returns Ok, unless
validate_circuit_config was called on the config parameter earlier on that path and returned Ok.
Outside the claim: what the callee does with the config after the sink (the build itself), and field writes into the
config between validation and the sink (none occur; a write through an opaque place ends the run as unsupported).
"""
import json
import os
import re
import subprocess
import time

import z3

import mirpool
import mirsmt
import mirtpl
from mirpool import V, OPQ, State, Unsupported

CONSTRUCTORS = [
    ("WormholeCircuit::new", "/repo/wormhole/circuit", r"^circuit_logic::<impl at wormhole/circuit/src/circuit\.rs[^>]*>::new$"),
    ("PrivateBatchCircuit::new", "/repo/wormhole/aggregator", r"private_batch::circuit::circuit_logic::<impl .*>::new$"),
    ("PublicBatchCircuit::new", "/repo/wormhole/aggregator", r"public_batch::circuit::circuit_logic::<impl .*>::new$"),
]
HARMLESS = re.compile(r" as Clone>::clone$|drop_in_place|mem::drop")


class CfgExec(mirtpl.TplExec):
    def __init__(self, mir_text):
        super().__init__(mir_text, "", K=1)
        self.havoc = True
        self.cut = []
        self.cfg = None

    def is_cfg(self, S, a):
        try:
            if a is self.cfg:
                return True
            if a.kind == "ref":
                return self.deref(S, a) is self.cfg
        except Unsupported:
            pass
        return False

    def call(self, S, callee, argtext):
        c = re.sub(r"\s+", " ", callee)
        args = []
        for x in mirsmt.split_args(argtext):
            try:
                args.append(self.operand(S, x))
            except Unsupported:
                args.append(OPQ("arg"))
        on_cfg = any(self.is_cfg(S, a) for a in args)
        if re.search(r"validate_circuit_config$", c):
            ok = self.fresh("policy_ok", "bool")
            S.events.append(("policy", ok, on_cfg))
            return [(S, V("enum", ty="Result", disc=z3.If(ok, 0, 1), payload={"Ok": [V("tuple", items=[])], "Err": [OPQ("policy error")]}))]
        if on_cfg and not HARMLESS.search(c):
            self.cut.append((S, re.sub(r"<.*>", "<..>", c)[:70]))
            return []
        return super().call(S, callee, argtext)

    def run_constructor(self, pat):
        cands = [(name, f) for name, fl in self.fns.items() for f in fl if re.search(pat, name) and "closure" not in name]
        cands = [(n, f) for n, f in cands if any("CircuitConfig" in t for _, t in f.params)]
        if len(cands) != 1:
            raise Unsupported(f"{pat}: {len(cands)} candidates in the MIR dump")
        name, fn = cands[0]
        env = {}
        for idx, ty in fn.params:
            env[idx] = OPQ(f"param {idx}")
            if ty.strip() == "CircuitConfig" and self.cfg is None:
                self.cfg = env[idx]
        if self.cfg is None:
            raise Unsupported("no by-value CircuitConfig parameter")
        S = State(env, V("struct", fields={}), {}, [], [], [])
        sink = []
        self.run_fn(fn, S, sink)
        return name, sink


def solve(dom, conds, timeout_s=60):
    s = z3.Solver()
    s.set("timeout", timeout_s * 1000)
    s.add(dom)
    s.add(conds)
    t = time.time()
    r = s.check()
    return r, time.time() - t


def run(work):
    """-> list of (name, verdict, secs, info)"""
    out = []
    mirs = {}
    for label, crate, pat in CONSTRUCTORS:
        if crate not in mirs:
            mirs[crate] = mirsmt.dump_mir(crate, os.path.join(work, "mir-target"))
        ex = CfgExec(mirs[crate])
        try:
            name, paths = ex.run_constructor(pat)
        except Unsupported as e:
            out.append((f"{label}: policy before any build", "UNKNOWN", 0.0, {"unsupported": str(e)}))
            continue
        secs, verdict, reach = 0.0, "HOLDS", 0

        def validated(S):
            evs = [e for e in S.events if e[0] == "policy" and e[2]]
            return z3.Or([e[1] for e in evs]) if evs else z3.BoolVal(False)
        for (S, what) in ex.cut:
            r, dt = solve(ex.dom, S.pc + [z3.Not(validated(S))])
            secs += dt
            if r == z3.sat:
                verdict = "CEX"
            elif r != z3.unsat and verdict != "CEX":
                verdict = "UNKNOWN"
            r2, dt = solve(ex.dom, S.pc)
            reach += r2 == z3.sat
        for (S, outcome, ret) in paths:
            if outcome != "return" or ret is None:
                continue
            may_ok = (ret.disc == 0) if ret.kind == "enum" else z3.BoolVal(True)
            r, dt = solve(ex.dom, S.pc + [may_ok, z3.Not(validated(S))])
            secs += dt
            if r == z3.sat:
                verdict = "CEX"
            elif r != z3.unsat and verdict != "CEX":
                verdict = "UNKNOWN"
        if verdict == "HOLDS" and reach == 0:
            verdict = "VACUOUS"
        sinks = sorted({w for _, w in ex.cut})
        out.append((f"{label}: no MIR path hands the config to any other function ({', '.join(sinks) or 'none found'}) or returns Ok unless validate_circuit_config(&config) returned Ok first ({len(paths)} returning paths, {len(ex.cut)} sink paths, over-approximated)",
                    verdict, secs, {"fn": name, "paths": len(paths), "sink_paths": len(ex.cut), "sinks": sinks}))
    return out


def replay(emit_bin, out_path):
    """Real constructors on configs failing exactly one policy clause. -> (reproduced, text)"""
    tmp = out_path + ".json"
    p = subprocess.run([emit_bin, "cfgrun", tmp], stdout=subprocess.PIPE, stderr=subprocess.STDOUT, text=True, timeout=600)
    if p.returncode != 0:
        return False, "cfgrun failed: " + p.stdout[-500:]
    rows = json.load(open(tmp))["rows"]
    bad = [(r["config"], k, r[k]) for r in rows for k in ("leaf", "private_batch", "public_batch") if r[k] != "err"]
    text = "real constructors on policy-failing configs: " + ("; ".join(f"{c}: {k} -> {v}" for c, k, v in bad) if bad else "all rejected with an error")
    open(out_path, "w").write(text + "\n" + json.dumps(rows, indent=1) + "\n")
    return bool(bad), text
