"""MIR -> SMT for the artifact publication routine of wormhole/circuit-builder (`commit_staging_dir_impl`
and the failure branch of `generate_all_circuit_binaries`), from the MIR of /repo's current source, over a
small filesystem model in which EVERY filesystem operation may fail and the process may die after any of them.

Filesystem model (three locations: STAGE = staging dir, OUT = output path, OLD = the move-aside sibling
`<staging name><suffix>`; content codes NONE / PREV = complete previous set / NEW = complete new set /
FILE = a non-directory / PARTIAL = a directory some of whose entries have been deleted):
  rename(src, dst)      fails arbitrarily (no change: rename is atomic); can succeed only if src exists and dst does not;
                        on success dst := src, src := NONE
  remove_dir_all(p)     fails arbitrarily; on success p := NONE; on failure a directory is left unchanged or PARTIAL
  Path::is_dir / exists read the content code
  Path::file_name / to_os_string / OsString::push / with_file_name: symbolic names; a sibling of STAGE whose file name is
                        STAGE's name plus a non-empty suffix is the location OLD (assumed distinct from OUT and absent at start)
  format!/anyhow!/Context/eprint!/drop: no filesystem effect
Crash points: a snapshot of the filesystem is taken after every mutating operation; the invariant is asked of every snapshot."""
import re

import z3

import mirpool
import mirsmt
from mirpool import V, OPQ, Unsupported, State

NONE, PREV, NEW, FILE, PARTIAL = 0, 1, 2, 3, 4
NAMES = {0: "absent", 1: "previous set", 2: "new set", 3: "file", 4: "mixed or partial"}


def is_dir(c):
    return z3.Or(c == PREV, c == NEW, c == PARTIAL)


class FsExec(mirpool.PoolExec):
    def __init__(self, mir_text):
        self.fns, self.consts = mirsmt.parse(mir_text)
        self.K = 0
        self.nfresh = 0
        self.paths = []
        self.unknown_calls = set()
        self.inputs = {}
        self.dom = []

    def init_fs(self):
        st = {"STAGE": z3.Int("pre_stage"), "OUT": z3.Int("pre_out"), "OLD": z3.Int("pre_old")}
        self.pre = dict(st)
        self.dom = [z3.Or([st["OUT"] == c for c in (NONE, PREV, FILE)]), z3.Or([st["STAGE"] == c for c in (NONE, NEW, FILE)]), st["OLD"] == NONE]
        return st

    def snap(self, S, label):
        S.events.append(("snap", label, dict(S.st)))

    def path_of(self, S, a):
        v = a
        for _ in range(4):
            if v.kind == "ref":
                v = self.deref(S, v)
        if v.kind != "path":
            raise Unsupported("filesystem call on a non-path value: " + v.kind)
        return v.loc

    def call(self, S, callee, argtext):
        args = []
        for x in mirsmt.split_args(argtext):
            try:
                args.append(self.operand(S, x))
            except Unsupported:
                args.append(OPQ("arg"))
        c = re.sub(r"\s+", " ", callee)

        def dv(a):
            return self.deref(S, a) if a.kind == "ref" else a
        if re.search(r"Path::is_dir$", c):
            loc = self.path_of(S, args[0])
            return [(S, V("bool", v=is_dir(S.st[loc])))]
        if re.search(r"Path::exists$|Path::try_exists$", c):
            loc = self.path_of(S, args[0])
            return [(S, V("bool", v=S.st[loc] != NONE))]
        if re.search(r"Path::file_name$", c):
            return [(S, V("osname", base=self.path_of(S, args[0]), suffix=""))]
        if re.search(r"Option::<&OsStr>::unwrap_or_default$|Option::<&OsStr>::unwrap$|OsStr::to_os_string$|OsStr::to_owned$", c):
            v = dv(args[0])
            if v.kind != "osname":
                raise Unsupported("file-name plumbing on " + v.kind)
            return [(S, v)]
        if re.search(r"OsString::push::<", c):
            ref, v = args[0], dv(args[0])
            if v.kind != "osname":
                raise Unsupported("OsString::push on " + v.kind)
            self.store_through(S, ref, V("osname", base=v.base, suffix=v.suffix + "+"))
            return [(S, V("tuple", items=[]))]
        if re.search(r"Path::with_file_name::<|Path::with_extension::<", c):
            base, nm = self.path_of(S, args[0]), dv(args[1])
            if nm.kind != "osname" or base != "STAGE" or nm.base != "STAGE" or not nm.suffix:
                raise Unsupported("sibling path that is not <staging name>+suffix")
            return [(S, V("path", loc="OLD"))]
        if re.search(r" as Deref>::deref$| as AsRef<Path>>::as_ref$|Path::new::<|PathBuf::as_path$", c):
            return [(S, dv(args[0]) if dv(args[0]).kind == "path" else args[0])]
        if re.search(r"remove_dir_all::<", c):
            loc = self.path_of(S, args[0])
            ok = self.fresh("rm_ok", "bool")
            part = self.fresh("rm_partial", "bool")
            cur = S.st[loc]
            S.pc.append(z3.Implies(ok, is_dir(cur)))
            S.st[loc] = z3.If(ok, NONE, z3.If(z3.And(part, is_dir(cur)), PARTIAL, cur))
            S.events.append(("fs", "remove_dir_all", loc, ok))
            self.snap(S, f"after remove_dir_all({loc})")
            return [(S, V("enum", ty="Result", disc=z3.If(ok, 0, 1), payload={"Ok": [V("tuple", items=[])], "Err": [OPQ("io error")]}))]
        if re.search(r" as Fn<\(&Path, &Path\)>>::call$", c) or re.search(r"std::fs::rename::<|fs::rename::<", c):
            if " as Fn<" in c:
                tup = args[1]
                if tup.kind != "tuple" or len(tup.items) != 2:
                    raise Unsupported("rename call arguments")
                src, dst = self.path_of(S, tup.items[0]), self.path_of(S, tup.items[1])
            else:
                src, dst = self.path_of(S, args[0]), self.path_of(S, args[1])
            ok = self.fresh("mv_ok", "bool")
            S.pc.append(z3.Implies(ok, z3.And(S.st[src] != NONE, S.st[dst] == NONE)))
            if src != dst:
                s_c, d_c = S.st[src], S.st[dst]
                S.st[dst] = z3.If(ok, s_c, d_c)
                S.st[src] = z3.If(ok, NONE, s_c)
            S.events.append(("fs", "rename", src, dst, ok))
            self.snap(S, f"after rename({src} -> {dst})")
            return [(S, V("enum", ty="Result", disc=z3.If(ok, 0, 1), payload={"Ok": [V("tuple", items=[])], "Err": [OPQ("io error")]}))]
        if re.search(r"anyhow::Context<.*>>::(with_)?context::<", c) or re.search(r"Result::<.*>::map_err::<", c):
            r = args[0]
            if r.kind != "enum":
                raise Unsupported("context on " + r.kind)
            return [(S, V("enum", ty="Result", disc=r.disc, payload={"Ok": r.payload.get("Ok", []), "Err": [OPQ("error with context")]}))]
        if re.search(r" as Try>::branch$", c):
            r = args[0]
            if r.kind != "enum":
                raise Unsupported("Try::branch on " + r.kind)
            resid = V("enum", ty="Result", disc=z3.IntVal(1), payload={"Err": r.payload.get("Err", [OPQ()])})
            return [(S, V("enum", ty="ControlFlow", disc=r.disc, payload={"Continue": r.payload.get("Ok", []), "Break": [resid]}))]
        if re.search(r" as FromResidual<.*>>::from_residual$", c):
            return [(S, V("enum", ty="Result", disc=z3.IntVal(1), payload={"Err": [OPQ("residual")]}))]
        # ---- generate_all_circuit_binaries level
        if re.search(r"CircuitBinsConfig::new$", c):
            ok = self.fresh("config_ok", "bool")
            return [(S, V("enum", ty="Result", disc=z3.If(ok, 0, 1), payload={"Ok": [OPQ("config")], "Err": [OPQ("error")]}))]
        if re.search(r"^create_staging_dir$|::create_staging_dir$", c):
            ok = self.fresh("staging_ok", "bool")
            S.st["STAGE"] = z3.If(ok, PARTIAL, S.st["STAGE"])          # a fresh, still incomplete directory
            S.events.append(("fs", "create_staging_dir", ok))
            self.snap(S, "after create_staging_dir")
            return [(S, V("enum", ty="Result", disc=z3.If(ok, 0, 1), payload={"Ok": [V("path", loc="STAGE")], "Err": [OPQ("error")]}))]
        if re.search(r"\{closure@.*\} as Fn<\(\)>>::call$", c):
            ok = self.fresh("generation_ok", "bool")
            S.st["STAGE"] = z3.If(ok, NEW, PARTIAL)
            S.events.append(("generate", ok))
            self.snap(S, "after artifact generation into the staging dir")
            return [(S, V("enum", ty="Result", disc=z3.If(ok, 0, 1), payload={"Ok": [V("tuple", items=[])], "Err": [OPQ("error")]}))]
        if re.search(r"^commit_staging_dir$|::commit_staging_dir$", c):
            src, dst = self.path_of(S, args[0]), self.path_of(S, args[1])
            S.events.append(("commit", src, dst))
            ok = self.fresh("commit_ok", "bool")
            return [(S, V("enum", ty="Result", disc=z3.If(ok, 0, 1), payload={"Ok": [V("tuple", items=[])], "Err": [OPQ("error")]}))]
        fn = self.same_crate_fn(c, len(args))
        if fn is not None:          # a helper of the analysed crate: follow the logic into it
            return self.inline_call(S, fn, args)
        for a in args:
            v = a
            for _ in range(3):
                if v.kind == "ref":
                    try:
                        v = self.deref(S, v)
                    except Unsupported:
                        break
            if v.kind == "path" and not re.search(r"Path::(display|to_str|to_string_lossy|as_os_str|parent|is_absolute)$|fmt|Argument", c):
                raise Unsupported("unmodelled call that receives one of the publication paths: " + c[:80])
        self.unknown_calls.add(re.sub(r"<.*>", "<..>", c)[:80])
        return [(S, OPQ("call " + c[:40]))]

    def run_commit(self):
        cands = [f for name, fl in self.fns.items() for f in fl if name.endswith("commit_staging_dir_impl")]
        if len(cands) != 1:
            raise Unsupported("commit_staging_dir_impl not found uniquely in the MIR dump")
        fn = cands[0]
        st = self.init_fs()
        env = {fn.params[0][0]: V("path", loc="STAGE"), fn.params[1][0]: V("path", loc="OUT"), fn.params[2][0]: OPQ("injected rename")}
        S = State(env, V("struct", fields={}), st, [], [], [])
        self.snap(S, "start")
        sink = []
        self.run_fn(fn, S, sink)
        self.paths = sink
        return sink

    def run_generate(self):
        cands = [f for name, fl in self.fns.items() for f in fl if name.endswith("generate_all_circuit_binaries") and "closure" not in name]
        if len(cands) != 1:
            raise Unsupported("generate_all_circuit_binaries not found uniquely in the MIR dump")
        fn = cands[0]
        st = self.init_fs()
        self.dom = [z3.Or([st["OUT"] == c for c in (NONE, PREV, FILE)]), st["STAGE"] == NONE, st["OLD"] == NONE]
        env = {fn.params[0][0]: V("path", loc="OUT"), fn.params[1][0]: V("bool", v=z3.Bool("include_prover")),
               fn.params[2][0]: V("int", v=z3.Int("num_leaf")), fn.params[3][0]: OPQ("Option<usize>")}
        S = State(env, V("struct", fields={}), st, [], [], [])
        self.snap(S, "start")
        sink = []
        self.run_fn(fn, S, sink)
        return sink
