#!/usr/bin/env python3
"""Regenerates MANIFEST.json from the table below (keeps it valid at all times)."""
import json, subprocess

GUARD = "quantus_network_qp_zk_circuits_verif"
CSX_NOTE = ("Trusted base: gate semantics of qp-plonky2 1.5.5 as modelled in csx/symx.py and the emitter's reconstruction of the "
            "built CircuitData (both validated on every run: honest witnesses of the real generators must satisfy the encoding), "
            "FRI/PLONK soundness, z3. Poseidon2 is uninterpreted, so results hold for any permutation.")
CSX_TECH = "SMT (z3, integer theory + UF) over the gate-level constraint system extracted from the real built circuit; counterexamples replayed through the real prover/verifier"

KANI_NOTE = ("Trusted base: Kani 0.68/CBMC 6.11 with unwinding assertions; the harness build replaces anyhow by a heap-free shim and stubs "
             "alloc::fmt::format (listed in the evidence); harness crates take /repo crates as unmodified path dependencies.")
KANI_TECH = "bounded model checking of the compiled Rust code (Kani/CBMC + CaDiCaL) over kani::any() inputs; failing harnesses replayed natively via concrete playback"
KANI = {
 "C14": ("other", "4 (C14)", "Commit preflights vs circuit acceptance. Public layer: Kani proves ensure_private_batch_compatible accepts exactly the header pairs the public wrapper can prove (C13's condition) with a real inner. Private layer: counterexample search only - solver models violating exactly one clause of the acceptance condition proved for the real circuit (C07) are shown UNSAT on the circuit IR and must be rejected by the real preflight (this found and now guards the repaired sum-check defect); other commit steps are outside."),
 "C24": ("model_checking", "4 (C24)", "u64 parsers of qp-wormhole-inputs: total (no panic) and accept exactly the reference layout predicate with field-exact results, for every vector of the covered lengths; felt-based parsers not covered."),
 "C25": ("model_checking", "4 (C25)", "Integer limb codecs and digest validation over their full input width; edge byte encoding round-trips (hence injective) for every string of length <= 9; 1 MiB cap rejection; quantization only near the cap."),
 "C26": ("model_checking", "4 (C26)", "Compact hash: accepts exactly 8-byte-aligned input whose limbs are all below p (lengths 0,7,8,(9,16,)24 symbolic content), hands exactly the limb sequence to the sponge (injective on the accepted domain), rejects > 1 MiB; the node-hash clauses of C26 are not covered."),
 "C28": ("model_checking", "4 (C28)", "validate_circuit_config == the documented conjunction for every value of the nine numeric knobs (full usize width, Kani); the three public circuit constructors from their MIR (z3, over-approximated paths): the config reaches no other function and no path returns Ok unless validate_circuit_config(&config) returned Ok first; memprof CLI not covered."),
 "C29": ("model_checking", "4 (C29)", "validate_proof_count exact over all usize; layout length exact for counts <= 64; the public-batch parser rejects out-of-range counts (incl. usize::MAX) before layout arithmetic."),
}

MIR_NOTE = ("Trusted base: nightly rustc's MIR dump of /repo's current source is the program analysed; the environment push calls into (clock, verifier, "
            "metadata parser, std maps/vectors/iterators, formatting) is replaced by the stubs listed in native/mirpool.py and in the evidence; pre-state "
            "assumptions are listed in the evidence; z3. The engine is validated on every run against real ProofPool runs (csx-emit poolrun).")
MIR_TECH = ("symbolic execution of the MIR of the function under check (ProofPool::push (all basic blocks, path enumeration) for C19/C22, commit_staging_dir_impl + generate_all_circuit_binaries for C23, the two template validators and their six callers for C16; all basic blocks, path enumeration) into z3 (Int + Array theories), one step from an arbitrary "
            "state with the environment (clock, verifier, std containers, filesystem) replaced by symbolic stubs whose every call may fail; counterexamples are turned into a concrete history / fault schedule and replayed on the REAL code, judged by an executable spec")
MIRPOOL = {
 "C19": ("model_checking", "4.2 (C19/C22)", "One push from an arbitrary pool state: Ok exactly under the documented conjunction (with the pool's own window decision), rejected pushes leave maps/counts/index "
         "unchanged, pool-state membership tests only after a successful verification, admitted pushes index exactly the proof's nullifiers; parse_metadata's own acceptance condition is a stub (outside)."),
 "C22": ("model_checking", "4.2 (C19/C22)", "One push from an arbitrary pool state: window restart only after a full window and always after more than one, counter +1 per attempt regardless of result, "
         "verification attempted iff earlier rules pass and counter < limit, counter charged before verifying; inductive invariant counter <= limit and ghost 'attempts since window start' == counter."),
 "C23": ("model_checking", "4.3 (C23)", "Publish routine (commit_staging_dir_impl) from its MIR over a 3-location filesystem model: with every rename/remove_dir_all able to fail and a crash possible after every operation, "
         "the output path always holds the complete previous or complete new set, or is empty while both copies survive; Ok iff the new set is live; failed generation never touches the output and removes its staging dir."),
 "C16": ("model_checking", "4.4 (C16)", "Both template validators from their MIR: Ok exactly when the parsed public inputs carry the complete sentinel and the proof verifies (exit-slot lists <= 3 quick / 8 thorough); "
         "the six functions that accept a template cannot return Ok without a successful validator call (over-approximated MIR paths). Parsers stubbed (C24)."),
}

CHECKS = {
 "C01": ("model_checking", "2-3", "All wire assignments of the complete built leaf circuit: 32-bit ranges, fee bound and the integer fee inequality are consequences of the constraint system (UNSAT of constraints ∧ ¬goal), vacuity-guarded."),
 "C02": ("model_checking", "2-3", "All wire assignments of the leaf circuit: nullifier/address bindings to one shared secret and the leaf's count, hash as uninterpreted sponge spec."),
 "C03": ("model_checking", "2-3", "All wire assignments: header preimage order, block-number and tree-root bindings, depth/position ranges, and the 16-level Merkle walk via per-level solver lemmas at cut points."),
 "C05": ("model_checking", "3 (C05)", "Leaf constraint-system half of C05: the 21 public inputs are the documented wire classes in the documented order, and every honest statement satisfying the spec relation satisfies every circuit constraint (hints Skolemised); prover/verifier run and Vec-shape error paths are outside."),
 "C06": ("model_checking", "3 (C06)", "Private wrapper IR for N<=2 (quick) / N<=3 (thorough): every public output equals the transcribed spec O(x) (header, dummy-masked first-occurrence grouping, sorted replacement-aware nullifier region, zero padding) for all child statements, preimages and hint wires."),
 "C07": ("model_checking", "3 (C07)", "Private wrapper IR N<=3 (quick) / N<=4 (thorough): satisfiable iff compatibility + replay-freedom + 32-bit grouped sums: 'only if' for all witnesses, 'if' by Skolemising the hint wires with the digits they decompose."),
 "C08": ("model_checking", "3 (C08)", "Private wrapper IR N<=3/4: conservation of value asked directly of the circuit's outputs (not of the spec transcription)."),
 "C09": ("model_checking", "3 (C09)", "Circuit output = O(x) re-proved on the IR (N<=2 quick / N<=3 thorough), two-witness dummy-content independence on the IR, and all N! slot permutations of O checked on the spec for N<=3; one recorded known finding."),
 "C10": ("model_checking", "3 (C10)", "Self-composition (two witness copies over shared inputs) on private wrapper, public wrapper, sort, less-than and digest-equality gadgets: outputs cannot differ."),
 "C11": ("model_checking", "3 (C11)", "Structural half of C11 on the full recursive circuits built by the real constructors: no witness can put a key other than the canonical child's verifier key on the wires verify_proof reads (all 68 are pinned by constant slots), and every child slot of the 2-slot (quick) / up to 3-slot (thorough) circuits has its own recursive-verifier instance whose public-input sponge absorbs exactly that slot's public inputs and feeds the transcript (copy-class matching over the built circuit's PoseidonGate rows; attack replayed through the real prover); that a pinned key rejects foreign proofs is plonky2's recursive-verifier soundness (assumed)."),
 "C12": ("model_checking", "3 (C12/C13)", "Public wrapper IR for (M,N) up to (3,2) quick / (4,4) thorough: every output position equals the order-preserving forwarding spec."),
 "C13": ("model_checking", "3 (C12/C13)", "Public wrapper IR: satisfiable iff real inners agree on block hash, asset and fee (both directions); vacuity witnesses show dummies and other fields are unconstrained."),
 "C36": ("model_checking", "3 (C36)", "M private-wrapper IR copies chained into the public-wrapper IR in one solver context: end-to-end value conservation and nullifier-set statements for (M,N) in {(1,2),(2,1),(2,2)} (+(3,2),(2,3) thorough)."),
 "C30": ("model_checking", "3 (C30)", "Per (constant,width) instance over every width 1..64: for all field elements and all hint assignments the gadget implies x<2^w and output=(c<x); alias counterexamples are replayed with adversarial hint wires."),
 "C31": ("model_checking", "3 (C31)", "For list lengths n<=3 (quick) / n<=4 (thorough): every satisfying assignment of the sort gadget has sorted output that is a permutation of the input."),
 "C04": ("model_checking", "2-3", "All wire assignments: the dummy flag is a function of the statement (no witness freedom) and each binding is enforced under each non-sentinel condition."),
}

def main():
    commits = subprocess.run(["git", "-C", "/repo", "log", "--format=%H %s"], capture_output=True, text=True).stdout.splitlines()
    hook_commits = [c.split()[0] for c in commits if " verif hook" in c]
    checks = []
    for pid, (cat, ref, text) in sorted(CHECKS.items()):
        checks.append({
            "property_id": pid,
            "quick_cmd": f"./check {pid} --tier quick",
            "thorough_cmd": f"./check {pid} --tier thorough",
            "evidence_file": f"/verif/evidence/{pid}.json",
            "replay_cmd_template": "cat {path}",
            "engine": "csx",
            "level_claimed": {"category": cat, "text": text, "design_ref": f"DESIGN.md section {ref}"},
            "level_note": CSX_NOTE,
            "technique": CSX_TECH,
        })
    for pid, (cat, ref, text) in sorted(KANI.items()):
        checks.append({
            "property_id": pid,
            "quick_cmd": f"./check {pid} --tier quick",
            "thorough_cmd": f"./check {pid} --tier thorough",
            "evidence_file": f"/verif/evidence/{pid}.json",
            "replay_cmd_template": "cat {path}",
            "engine": "kani",
            "level_claimed": {"category": cat, "text": text, "design_ref": f"DESIGN.md section {ref}"},
            "level_note": KANI_NOTE,
            "technique": KANI_TECH + ("; plus symbolic execution of the MIR of the three public circuit constructors into z3 (over-approximated path enumeration, every call opaque) for the policy-before-build clause, counterexamples confirmed by the real constructors" if pid == "C28" else ""),
        })
    for pid, (cat, ref, text) in sorted(MIRPOOL.items()):
        checks.append({
            "property_id": pid,
            "quick_cmd": f"./check {pid} --tier quick",
            "thorough_cmd": f"./check {pid} --tier thorough",
            "evidence_file": f"/verif/evidence/{pid}.json",
            "replay_cmd_template": "cat {path}",
            "engine": "mir-smt",
            "level_claimed": {"category": cat, "text": text, "design_ref": f"DESIGN.md section {ref}"},
            "level_note": MIR_NOTE,
            "technique": MIR_TECH,
        })
    checks.sort(key=lambda c: c["property_id"])
    na = json.load(open("/verif/not_applicable.json"))
    claimed = set(CHECKS) | set(KANI) | set(MIRPOOL)
    na = [x for x in na if x["property_id"] not in claimed]
    m = {
        "version": 1,
        "setup_cmd": "./setup.sh",
        "hooks": {
            "guard": GUARD,
            "enable": f"RUSTFLAGS='--cfg {GUARD}' (set by the checks when they build /repo crates as path dependencies)",
            "baseline_off_cmd": "cd /repo && cargo nextest run --workspace --no-fail-fast --tool-config-file pb:/w/lib/nextest.toml --profile pb --test-threads 8 --offline || cargo test --workspace --no-fail-fast --offline",
            "source_commits": hook_commits,
            "add_only": True,
        },
        "engines": [
            {"name": "csx", "path": "/verif/csx + /verif/csx-emit", "serves_properties": sorted(CHECKS),
             "kind_free_text": "constraint-system extraction (Rust emitter over the real circuit builders) + typed symbolic executor to z3"},
            {"name": "kani", "path": "/verif/kani-h + /verif/native", "serves_properties": sorted(KANI),
             "kind_free_text": "Kani/CBMC proof harnesses over the repo crates as path dependencies"},
        ],
        "checks": checks,
        "not_applicable": na,
        "notes": "See DESIGN.md. Exit codes of ./check: 0 held, 1 VIOLATION (replayed), 2 inconclusive, 3 machinery does not build on this tree.",
    }
    json.dump(m, open("/verif/MANIFEST.json", "w"), indent=1, ensure_ascii=False)

main()
